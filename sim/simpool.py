"""SimPool: real forked workers running the stdlib worker loop, simulated dispatcher.

Installed by rebinding ``multiprocessing.pool.Pool`` (``multiprocessing.Pool`` is the bound context
method that executes ``from .pool import Pool`` at call time, so every way of asking the
multiprocessing package for a process pool lands here).

What is real: ``os.fork`` at construction (so each worker holds a copy-on-write snapshot of all
parent state at that instant), the worker body (``multiprocessing.pool.worker`` itself), pickling of
tasks and results through pipes, the stdlib chunking helpers and result objects
(``Pool._get_tasks``, ``mapstar``, ``MapResult``, ``IMapIterator`` ... are imported, not copied).

What is simulated: the three handler threads.  A discrete-event loop with two event kinds —
``take(w)`` (worker w takes the head of the FIFO task queue and runs it) and ``deliver(w)`` (the
oldest undelivered result of worker w reaches the result handler) — and the controller's seeded
scheduler picks among the enabled events.  Exactly one worker computes at a time, so a run is
deterministic although the workers are real processes.
"""
import collections
import errno
import itertools
import os
import random
import signal
import sys
import threading
import time
import multiprocessing as _mp
import multiprocessing.pool as _mpp
from multiprocessing.connection import Pipe

from .core import HarnessError, digest

_REAL_POOL = _mpp.Pool
RUN, CLOSE, TERMINATE = "RUN", "CLOSE", "TERMINATE"
WORKER_REPLY_TIMEOUT = float(os.environ.get("VERIF_WORKER_TIMEOUT", "60"))


class Controller:
    """Owns every scheduling decision and the pool-related fault switches of one run."""

    def __init__(self):
        self.configure(None)

    def configure(self, sched):
        self.sched = sched or {"policy": "fifo"}
        self.policy = self.sched.get("policy", "fifo")
        self.rng = random.Random(self.sched.get("seed", 0))
        self.take_w = self.sched.get("take_w") or [1.0] * 16
        self.deliver_w = self.sched.get("deliver_w") or [1.0] * 16
        self.deliver_bias = self.sched.get("deliver_bias", 1.0)
        # probability that, at a submission point (apply_async / map_async / imap), the handler threads and workers get to run
        # one more event before the submitting call returns - the parent being pre-empted between two submissions
        self.eager = self.sched.get("eager", 0.0)
        # probability that a wait with a finite timeout (get / wait / next with timeout=...) expires before the result is there
        self.timeout_p = self.sched.get("timeout_p", 0.0)
        self.seam_counts = {"timed_wait_expired": 0, "sleep_calls": 0}
        self.decisions = []  # [pool_no, kind, worker] as taken
        self.pools = []  # per pool stats
        self.fork_fail_at = None  # pool creation number (0-based) that fails with EAGAIN
        self.fork_fail_fired = 0
        self.pool_created_hook = None  # callable(pool) used by C11 probes
        self.live = []
        self._rr = 0

    def timed_wait_expires(self):
        if self.timeout_p and self.rng.random() < self.timeout_p:
            self.seam_counts["timed_wait_expired"] += 1
            return True
        return False

    # -- scheduling ---------------------------------------------------------------------------
    def choose(self, pool, enabled):
        if self.policy == "fifo":
            # in-order, round-robin: deliver as soon as possible, spread tasks over workers
            for ev in enabled:
                if ev[0] == "deliver":
                    pick = ev
                    break
            else:
                takes = [ev for ev in enabled if ev[0] == "take"]
                pick = takes[self._rr % len(takes)]
                self._rr += 1
        else:
            weights = []
            for kind, w in enabled:
                if kind == "take":
                    weights.append(self.take_w[w % len(self.take_w)])
                else:
                    weights.append(self.deliver_w[w % len(self.deliver_w)] * self.deliver_bias)
            total = sum(weights)
            if total <= 0:
                pick = enabled[0]
            else:
                x = self.rng.random() * total
                acc = 0.0
                pick = enabled[-1]
                for ev, wt in zip(enabled, weights):
                    acc += wt
                    if x < acc:
                        pick = ev
                        break
        self.decisions.append([pool.number, pick[0], pick[1]])
        return pick

    # -- statistics ---------------------------------------------------------------------------
    def summary(self):
        out = {
            "pools": len(self.pools),
            "events": len(self.decisions),
            "tasks": sum(p["tasks"] for p in self.pools),
            "out_of_order_delivery": sum(1 for p in self.pools if p["out_of_order"]),
            "worker_never_used": sum(1 for p in self.pools if p["unused_workers"] > 0),
            "multi_chunk_pools": sum(1 for p in self.pools if p["tasks"] >= 2),
            "fork_fail_fired": self.fork_fail_fired,
            "timed_wait_expired": self.seam_counts["timed_wait_expired"],
            "sleep_seam_calls": self.seam_counts["sleep_calls"],
            "signatures": [p["signature"] for p in self.pools],
        }
        return out


CTL = Controller()


class _Q:
    """Minimal queue facade over one Connection end, as the stdlib worker() expects."""

    def __init__(self, conn):
        self._conn = conn

    def get(self):
        return self._conn.recv()

    def put(self, obj):
        self._conn.send(obj)


class _Worker:
    __slots__ = ("index", "pid", "task_w", "res_r", "outbox", "done", "alive")


def _sim_wait(self, timeout=None):
    pool = self._simpool
    if timeout is not None and CTL.timed_wait_expires():
        # a wait with a finite timeout may expire before the result is there (a slow worker, a loaded machine): let a seeded
        # number of events happen, then return whatever the state is - the stdlib's get() raises TimeoutError if not ready
        for _ in range(CTL.rng.randrange(0, 4)):
            if self.ready() or not pool._step():
                break
        return
    while not self.ready():
        if not pool._step():
            raise HarnessError("SimPool: result not ready and no event enabled (deadlock)")


class SimApplyResult(_mpp.ApplyResult):
    def __init__(self, pool, callback, error_callback):
        self._simpool = pool
        super().__init__(pool, callback, error_callback)

    wait = _sim_wait


class SimMapResult(_mpp.MapResult):
    def __init__(self, pool, chunksize, length, callback, error_callback):
        self._simpool = pool
        super().__init__(pool, chunksize, length, callback, error_callback)

    wait = _sim_wait


class SimIMapIterator(_mpp.IMapIterator):
    def __init__(self, pool):
        self._simpool = pool
        super().__init__(pool)

    def next(self, timeout=None):
        pool = self._simpool
        if timeout is not None and CTL.timed_wait_expires():
            for _ in range(CTL.rng.randrange(0, 4)):
                if self._items or self._index == self._length or not pool._step():
                    break
            if not self._items and self._index != self._length:
                raise _mp.TimeoutError
        while not self._items and self._index != self._length:
            if not pool._step():
                raise HarnessError("SimPool: imap iterator starved (deadlock)")
        return _mpp.IMapIterator.next(self, 0)

    __next__ = next


class SimIMapUnorderedIterator(_mpp.IMapUnorderedIterator):
    def __init__(self, pool):
        self._simpool = pool
        super().__init__(pool)

    next = SimIMapIterator.next
    __next__ = next


class SimPool:
    _wrap_exception = True
    _counter = itertools.count()

    def __init__(self, processes=None, initializer=None, initargs=(), maxtasksperchild=None, context=None):
        self._state = None
        self._workers = []
        ctl = CTL
        self.number = len(ctl.pools)
        if processes is None:
            processes = os.cpu_count() or 1
        if processes < 1:
            raise ValueError("Number of processes must be at least 1")
        if maxtasksperchild is not None:
            if not isinstance(maxtasksperchild, int) or maxtasksperchild <= 0:
                raise ValueError("maxtasksperchild must be a positive int or None")
        if initializer is not None and not callable(initializer):
            raise TypeError("initializer must be a callable")
        self._stats = {
            "workers": processes,
            "tasks": 0,
            "assign": [],
            "delivery": [],
            "out_of_order": False,
            "unused_workers": 0,
            "signature": None,
        }
        ctl.pools.append(self._stats)
        if ctl.fork_fail_at is not None and ctl.fork_fail_at == self.number:
            ctl.fork_fail_fired += 1
            raise OSError(errno.EAGAIN, "Resource temporarily unavailable (injected fork_fail)")
        self._processes = processes
        self._initializer = initializer
        self._initargs = initargs
        self._maxtasksperchild = maxtasksperchild
        self._cache = {}
        self._inqueue = collections.deque()
        self._steps = 0
        self._state = RUN
        ctl.live.append(self)
        for i in range(processes):
            self._workers.append(self._spawn(i))
        if ctl.pool_created_hook is not None:
            ctl.pool_created_hook(self)

    # the real pool exposes the worker list as _pool; _map_async uses len(self._pool)
    @property
    def _pool(self):
        return self._workers

    # -- processes ----------------------------------------------------------------------------
    def _spawn(self, index):
        task_r, task_w = Pipe(duplex=False)
        res_r, res_w = Pipe(duplex=False)
        sys.stdout.flush()
        sys.stderr.flush()
        pid = os.fork()
        if pid == 0:
            code = 1
            try:
                sys.settrace(None)
                threading.settrace(None)
                signal.signal(signal.SIGINT, signal.SIG_DFL)
                task_w.close()
                res_r.close()
                for pool in CTL.live:
                    for w in pool._workers:
                        try:
                            w.task_w.close()
                            w.res_r.close()
                        except Exception:
                            pass
                _mpp.worker(_Q(task_r), _Q(res_w), self._initializer, self._initargs,
                            self._maxtasksperchild, True)
                code = 0
            except BaseException:
                code = 1
            finally:
                os._exit(code)
        task_r.close()
        res_w.close()
        w = _Worker()
        w.index, w.pid, w.task_w, w.res_r = index, pid, task_w, res_r
        w.outbox = collections.deque()
        w.done = 0
        w.alive = True
        return w

    def _reap(self, w, kill=True):
        if not w.alive:
            return
        w.alive = False
        try:
            w.task_w.close()
        except Exception:
            pass
        try:
            w.res_r.close()
        except Exception:
            pass
        if kill:
            try:
                os.kill(w.pid, signal.SIGKILL)
            except ProcessLookupError:
                pass
        try:
            os.waitpid(w.pid, 0)
        except ChildProcessError:
            pass

    # -- event loop ---------------------------------------------------------------------------
    def _enabled(self):
        ev = []
        if self._inqueue:
            for w in self._workers:
                if w.alive:
                    ev.append(("take", w.index))
        for w in self._workers:
            if w.outbox:
                ev.append(("deliver", w.index))
        return ev

    def _step(self):
        if self._state == TERMINATE:
            return False
        enabled = self._enabled()
        if not enabled:
            return False
        self._steps += 1
        if self._steps > 4 * self._stats["tasks"] + 16:
            raise HarnessError("SimPool: scheduler step cap exceeded")
        kind, wi = CTL.choose(self, enabled)
        w = self._workers[wi]
        if kind == "take":
            self._take(w)
        else:
            self._deliver(w)
        return True

    def _take(self, w):
        task = self._inqueue.popleft()
        job, idx = task[0], task[1]
        self._stats["assign"].append(w.index)
        try:
            w.task_w.send(task)
        except Exception as e:  # unpicklable task: what _handle_tasks does
            try:
                self._cache[job]._set(idx, (False, e))
            except KeyError:
                pass
            return
        if not w.res_r.poll(WORKER_REPLY_TIMEOUT):
            raise HarnessError("SimPool: worker %d gave no reply in %ss" % (w.index, WORKER_REPLY_TIMEOUT))
        try:
            reply = w.res_r.recv()
        except EOFError:
            raise HarnessError("SimPool: worker %d died while running a task" % w.index)
        w.outbox.append(reply)
        w.done += 1
        if self._maxtasksperchild and w.done >= self._maxtasksperchild:
            # the stdlib worker loop has returned; _handle_workers would now fork a replacement
            # from the parent's *current* state
            outbox = w.outbox
            self._reap(w, kill=False)
            nw = self._spawn(w.index)
            nw.outbox = outbox
            self._workers[w.index] = nw

    def _deliver(self, w):
        job, i, obj = w.outbox.popleft()
        d = self._stats["delivery"]
        if d and (job, i) < max(d):
            self._stats["out_of_order"] = True
        d.append((job, i))
        try:
            self._cache[job]._set(i, obj)
        except KeyError:
            pass

    def _finish_stats(self):
        st = self._stats
        if st["signature"] is None:
            st["unused_workers"] = st["workers"] - len(set(st["assign"]))
            st["signature"] = digest([st["workers"], st["tasks"], st["assign"], st["delivery"]])

    # -- submission ---------------------------------------------------------------------------
    def _check_running(self):
        if self._state != RUN:
            raise ValueError("Pool not running")

    def _submit(self, taskseq, set_length):
        task = None
        n = 0
        for task in taskseq:
            self._inqueue.append(task)
            n += 1
        self._stats["tasks"] += n
        if set_length:
            idx = task[1] if task else -1
            set_length(idx + 1)
        self._pending_eager = True

    def _eager(self):
        """Scheduling point after a submission: with the run's 'eager' probability, events happen before the caller goes on."""
        if not getattr(self, "_pending_eager", False):
            return
        self._pending_eager = False
        ctl = CTL
        if ctl.policy == "fifo" or ctl.eager <= 0:
            return
        while ctl.rng.random() < ctl.eager and self._state == RUN and self._step():
            pass

    _guarded_task_generation = _REAL_POOL._guarded_task_generation
    _get_tasks = staticmethod(_REAL_POOL._get_tasks)

    def apply(self, func, args=(), kwds={}):
        return self.apply_async(func, args, kwds).get()

    def map(self, func, iterable, chunksize=None):
        return self._map_async(func, iterable, _mpp.mapstar, chunksize).get()

    def starmap(self, func, iterable, chunksize=None):
        return self._map_async(func, iterable, _mpp.starmapstar, chunksize).get()

    def starmap_async(self, func, iterable, chunksize=None, callback=None, error_callback=None):
        return self._map_async(func, iterable, _mpp.starmapstar, chunksize, callback, error_callback)

    def map_async(self, func, iterable, chunksize=None, callback=None, error_callback=None):
        return self._map_async(func, iterable, _mpp.mapstar, chunksize, callback, error_callback)

    def apply_async(self, func, args=(), kwds={}, callback=None, error_callback=None):
        self._check_running()
        result = SimApplyResult(self, callback, error_callback)
        self._submit([(result._job, 0, func, args, kwds)], None)
        self._eager()
        return result

    def _map_async(self, func, iterable, mapper, chunksize=None, callback=None, error_callback=None):
        self._check_running()
        if not hasattr(iterable, "__len__"):
            iterable = list(iterable)
        if chunksize is None:
            chunksize, extra = divmod(len(iterable), len(self._pool) * 4)
            if extra:
                chunksize += 1
        if len(iterable) == 0:
            chunksize = 0
        task_batches = SimPool._get_tasks(func, iterable, chunksize)
        result = SimMapResult(self, chunksize, len(iterable), callback, error_callback)
        self._submit(self._guarded_task_generation(result._job, mapper, task_batches), None)
        self._eager()
        return result

    def imap(self, func, iterable, chunksize=1):
        return self._imap(SimIMapIterator, func, iterable, chunksize, "{0:n}")

    def imap_unordered(self, func, iterable, chunksize=1):
        return self._imap(SimIMapUnorderedIterator, func, iterable, chunksize, "{0!r}")

    def _imap(self, cls, func, iterable, chunksize, fmt):
        self._check_running()
        if chunksize == 1:
            result = cls(self)
            self._submit(self._guarded_task_generation(result._job, func, iterable), result._set_length)
            self._eager()
            return result
        if chunksize < 1:
            raise ValueError(("Chunksize must be 1+, not " + fmt).format(chunksize))
        task_batches = SimPool._get_tasks(func, iterable, chunksize)
        result = cls(self)
        self._submit(self._guarded_task_generation(result._job, _mpp.mapstar, task_batches), result._set_length)
        return (item for chunk in result for item in chunk)

    # -- lifecycle ----------------------------------------------------------------------------
    def close(self):
        if self._state == RUN:
            self._state = CLOSE

    def terminate(self):
        if self._state is None:
            return
        self._state = TERMINATE
        self._finish_stats()
        for w in self._workers:
            self._reap(w)
        if self in CTL.live:
            CTL.live.remove(self)

    def join(self):
        if self._state == RUN:
            raise ValueError("Pool is still running")
        if self._state == CLOSE:
            while self._step():
                pass
            self._finish_stats()
            for w in self._workers:
                if w.alive:
                    try:
                        w.task_w.send(None)
                    except Exception:
                        pass
                self._reap(w, kill=False)
            self._state = TERMINATE
            if self in CTL.live:
                CTL.live.remove(self)

    def __enter__(self):
        self._check_running()
        return self

    def __exit__(self, exc_type, exc_val, exc_tb):
        self.terminate()

    def __del__(self):
        try:
            if self._state in (RUN, CLOSE):
                self.terminate()
        except Exception:
            pass

    def __reduce__(self):
        raise NotImplementedError("pool objects cannot be passed between processes or pickled")


_ORIG_EVENT_WAIT = threading.Event.wait
_ORIG_SLEEP = time.sleep
_ORIG_COND_WAIT = threading.Condition.wait


def _drive_until(pred):
    """The main thread is about to block on a synchronisation object of its own (an Event set by a pool callback, a
    Queue fed by one): in the real pool the handler threads would go on meanwhile, so the simulated dispatcher does."""
    if threading.current_thread() is not threading.main_thread():
        return
    guard = 0
    while not pred() and guard < 100000:
        guard += 1
        progressed = False
        for pool in list(CTL.live):
            if pool._state != TERMINATE and pool._step():
                progressed = True
                break
        if not progressed:
            break


def _sim_sleep(secs):
    """time.sleep while pools are alive, in the main thread: virtual time - nothing sleeps, and the handler threads and workers of
    the real pool would run meanwhile, so one to three dispatcher events happen (a polling loop around ready() makes progress)."""
    if CTL.live and threading.current_thread() is threading.main_thread():
        CTL.seam_counts["sleep_calls"] += 1
        for _ in range(1 + CTL.rng.randrange(3)):
            for pool in list(CTL.live):
                if pool._state != TERMINATE and pool._step():
                    break
        return None
    return _ORIG_SLEEP(secs)


def _event_wait(self, timeout=None):
    if CTL.live and not self.is_set():
        _drive_until(self.is_set)
    return _ORIG_EVENT_WAIT(self, timeout)


def install():
    _mpp.Pool = SimPool
    threading.Event.wait = _event_wait
    time.sleep = _sim_sleep


def uninstall():
    _mpp.Pool = _REAL_POOL
    threading.Event.wait = _ORIG_EVENT_WAIT
    time.sleep = _ORIG_SLEEP


def terminate_all():
    """Kill and reap every worker of every live pool (run end / fault clean-up)."""
    for pool in list(CTL.live):
        try:
            pool.terminate()
        except Exception:
            pass


def leftover_children():
    """True if this process still has un-reaped children (no zombie may outlive a run child)."""
    try:
        pid, _ = os.waitpid(-1, os.WNOHANG)
    except ChildProcessError:
        return False
    return True
