"""Shared primitives: seed derivation, repo import, harness error types, digests.

Nothing in this file draws randomness or reads a clock.
"""
import hashlib
import json
import os
import sys

MASK64 = (1 << 64) - 1
DEFAULT_SEED = 20260926


class HarnessError(Exception):
    """The simulator itself failed (timeout, stub mismatch, protocol error). Never a VIOLATION."""


class InjectedCallbackError(Exception):
    """Raised by FaultyCallable at the chosen invocation (fault kind callback_raise)."""


class InjectedInterrupt(BaseException):
    """Raised from the line tracer (fault kind async_interrupt); BaseException like KeyboardInterrupt."""


def splitmix64(x):
    x = (x + 0x9E3779B97F4A7C15) & MASK64
    z = x
    z = ((z ^ (z >> 30)) * 0xBF58476D1CE4E5B9) & MASK64
    z = ((z ^ (z >> 27)) * 0x94D049BB133111EB) & MASK64
    return z ^ (z >> 31)


def derive_seed(batch_seed, prop, index, salt=0):
    """seed_i = f(VERIF_SEED, property, i): the one integer that decides run i."""
    h = splitmix64(batch_seed & MASK64)
    for ch in prop.encode():
        h = splitmix64(h ^ ch)
    h = splitmix64(h ^ (index & MASK64))
    h = splitmix64(h ^ (salt & MASK64))
    return h


def repo_root():
    return os.path.realpath(os.environ.get("VERIF_REPO", "/repo"))


def import_repo():
    """Import pyrepseq from VERIF_REPO's working tree (pure Python: importing *is* the rebuild)."""
    root = repo_root()
    if sys.path[0] != root:
        sys.path.insert(0, root)
    import warnings

    with warnings.catch_warnings():
        warnings.simplefilter("ignore")
        import pyrepseq  # noqa: F401
    got = os.path.realpath(os.path.dirname(pyrepseq.__file__))
    want = os.path.join(root, "pyrepseq")
    if got != want:
        raise HarnessError("pyrepseq imported from %s, wanted %s" % (got, want))
    return pyrepseq


def digest(obj):
    """Stable digest of a JSON-able object (sorted keys, no whitespace variance)."""
    s = json.dumps(obj, sort_keys=True, separators=(",", ":"), default=_json_default)
    return hashlib.sha256(s.encode()).hexdigest()[:16]


def _json_default(o):
    try:
        import numpy as np

        if isinstance(o, np.integer):
            return int(o)
        if isinstance(o, np.floating):
            return float(o)
        if isinstance(o, np.ndarray):
            return o.tolist()
    except Exception:
        pass
    return repr(o)


def jdump(obj, **kw):
    return json.dumps(obj, default=_json_default, **kw)
