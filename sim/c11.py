"""C11 — kdtree results are independent of worker count, chunking and compression.

A run is a short history (2-5 steps) of kdtree calls inside one process; each step issues the
configured call and its reference call (n_cpu=1, compression=1) in a seeded order.  The pool is
SimPool: real forked workers, seeded take/deliver schedule.
"""
import random

from . import oracles
from .core import HarnessError, digest
from .simpool import CTL

PROP = "C11"
AA = "ACDEFGHIKLMNPQRSTVWY"
RUN_TIMEOUT = 120
TIERS = {
    "quick": {"runs": 1500, "budget_s": 75, "selftest_seeds": 12, "fidelity": 6},
    "thorough": {"runs": 40000, "budget_s": 780, "selftest_seeds": 64, "selftest_cross": True, "fidelity": 48},
}
RULE = ("one run = seeded history of 2-5 kdtree steps (configured call + reference call, order seeded) in one "
        "process under SimPool with a seeded take/deliver schedule; swarm per run: size range, alphabet, modes, "
        "n_cpu bias, enabled schedule faults. distinct = hash of (per-step configuration class "
        "[sign(n_cpu-len), len%n_cpu==0, chunksize, histogram bins, mode, max_returns class], schedule signature "
        "[workers, tasks, assignment vector, delivery order] of every pool). non-trivial = at least one pool "
        "ran >= 2 chunks.")
SIMULATED_TIME_NOTE = ("no simulated clock: the code under test reads no clock or timer; logical time = scheduler "
                       "events (take/deliver), reported as counters.sched_events")
COMPONENTS = {
    "real": ["pyrepseq.kdtree/_kdtree_leven/_to_triplets/_cal_levenshtein/_cal_custom_dist", "scipy KDTree",
             "rapidfuzz extract", "os.fork'd pool workers running multiprocessing.pool.worker", "pickle over pipes",
             "stdlib Pool._get_tasks/mapstar/MapResult"],
    "stub": ["pool dispatcher: the three handler threads of multiprocessing.Pool are replaced by SimPool's "
             "seeded discrete-event loop"],
    "unscheduled_native_threads": ["KDTree.query_ball_point(workers=n_cpu)"],
}
ASSUMPTIONS = [
    "fork start method (platform default); spawn is not modelled",
    "SimPool dispatcher fidelity: re-implements CPython 3.12 pool bookkeeping, cross-checked against the real "
    "multiprocessing.Pool on sampled configurations (coverage.pool_fidelity)",
    "sentence 1 is differential only (configured vs n_cpu=1, compression=1); completeness of the reference is C04's subject",
    "sentence 2 model: Wagner-Fischer Levenshtein / equal-length mismatches / custom value with Levenshtein<=k filter",
    "worker SIGKILL is not injected: Pool.map has no recovery and no property promises one",
    "sampling, not proof",
]


# ---------------------------------------------------------------------------------------------
# custom distances — closures on purpose (reach workers by fork inheritance only)
# ---------------------------------------------------------------------------------------------
def make_custom(name):
    if name in ("default", None):
        return None
    if name == "hamming":
        return "hamming"
    lev = oracles.levenshtein
    scale = {"lev2": 2, "lev_plus_len": 1, "ham_or_big": 1, "lev_half": 0.5, "lev_frac": 0.25, "lev_np": 1, "lev_npf": 0.5, "anti": 1, "content": 0.5}[name]

    if name == "lev2":
        def dist(a, b):
            return scale * lev(str(a), str(b))
    elif name == "lev_plus_len":
        def dist(a, b):
            return scale * lev(str(a), str(b)) + abs(len(a) - len(b))
    elif name == "lev_half":  # non-integer values (exact in binary): 0.5, 1.0, 1.5 ...
        def dist(a, b):
            return scale * lev(str(a), str(b))
    elif name == "lev_frac":
        def dist(a, b):
            return lev(str(a), str(b)) + scale * abs(len(a) - len(b))
    elif name == "lev_np":  # numpy integer scalars
        def dist(a, b):
            import numpy as np

            return np.int64(scale * lev(str(a), str(b)))
    elif name == "anti":  # a metric that ranks (most) candidates the other way round than Levenshtein does: 0 for equal strings, else 3 - lev / 2
        def dist(a, b):
            a, b = str(a), str(b)
            return 0 if a == b else max(1.0, 3 - 0.5 * scale * lev(a, b))
    elif name == "content":  # depends on composition, not on edits: a far candidate can be "closer" than a true neighbour
        def dist(a, b):
            a, b = str(a), str(b)
            return abs(sum(map(ord, a)) % 5 - sum(map(ord, b)) % 5) + (scale if a != b else 0)
    elif name == "lev_npf":  # numpy float scalars, non-integer values
        def dist(a, b):
            import numpy as np

            return np.float64(scale * lev(str(a), str(b)))
    else:
        def dist(a, b):
            h = oracles.hamming_or_none(str(a), str(b))
            return 99 * scale if h is None else h
    return dist


# ---------------------------------------------------------------------------------------------
# generation
# ---------------------------------------------------------------------------------------------
def mutate(rng, s, alphabet, allow_indel=True):
    kinds = ["sub", "ins", "del"] if allow_indel else ["sub"]
    kind = rng.choice(kinds)
    if kind == "sub" and s:
        i = rng.randrange(len(s))
        return s[:i] + rng.choice(alphabet) + s[i + 1:]
    if kind == "ins" or not s:
        if not allow_indel:
            return s
        i = rng.randrange(len(s) + 1)
        return s[:i] + rng.choice(alphabet) + s[i:]
    i = rng.randrange(len(s))
    return s[:i] + s[i + 1:]


def gen_seqs(rng, swarm, mode, n):
    alphabet = swarm["alphabet"]
    nfam = rng.choice([1, 1, 2, 2, 3])
    lens = [rng.choice(swarm["lengths"]) for _ in range(nfam)]
    seeds = ["".join(rng.choice(alphabet) for _ in range(L)) for L in lens]
    out = []
    for _ in range(n):
        f = rng.randrange(nfam)
        s = seeds[f]
        for _ in range(rng.choice([0, 1, 1, 2, 2, 3])):
            s = mutate(rng, s, alphabet, allow_indel=(mode != "hamming" or rng.random() < 0.25))
        out.append(s)
    if n >= 2 and rng.random() < 0.35:
        for _ in range(rng.randint(1, max(1, n // 4))):
            out[rng.randrange(n)] = out[rng.randrange(n)]
    if rng.random() < 0.03:
        out[rng.randrange(n)] = ""
    rng.shuffle(out)
    return out


def gen_ncpu(rng, n):
    r = rng.random()
    if r < 0.12:
        return 1
    if r < 0.30:
        return min(16, n + rng.choice([1, 1, 2, 5]))
    if r < 0.40:
        return max(1, min(16, n))
    if r < 0.50:
        return max(1, min(16, n - 1))
    if r < 0.60:
        return max(2, min(16, n // 2 + rng.choice([0, 1])))
    return rng.choice([2, 2, 3, 3, 4, 5, 6, 7, 8, 11, 13, 16])


def generate(seed, tier, index=0):
    rng = random.Random(seed)
    asz = rng.choice([2, 3, 4, 6, 20])
    start = rng.randrange(0, 20)
    if rng.random() < 0.5:  # adjacent letters: share / straddle compression bins
        alphabet = "".join(AA[(start + i) % 20] for i in range(asz))
    else:
        alphabet = "".join(rng.sample(AA, asz))
    swarm = {
        "alphabet": alphabet,
        "lengths": rng.choice([[3, 4], [4, 5, 6], [5, 8, 12], [0, 1, 2], [6, 7], [9, 10, 11, 12], [16, 17, 19, 22]]),
        "max_n": rng.choice([4, 8, 12, 20, 40] if tier == "thorough" else [4, 8, 12, 20, 28]),
        "modes": rng.choice([["default"], ["hamming"], ["custom"], ["default", "hamming"], ["default", "hamming", "custom"],
                             ["default", "custom"]]),
        "faults": [f for f in ("reorder", "slow_worker", "idle_workers") if rng.random() < 0.6],
        "steps": rng.randint(2, 5 if tier == "thorough" else 4),
        "max_returns_p": rng.choice([0.0, 0.3, 0.5, 0.8]),
    }
    long_run = rng.random() < 0.03
    if long_run:
        # sequences as long as a whole V domain, over a few letters: single histogram bins reach counts above 127 / 255
        swarm["lengths"] = rng.choice([[126, 127, 128, 129], [127, 128], [254, 255, 256, 257]])
        swarm["max_n"] = rng.choice([3, 5, 6])
        swarm["steps"] = 2
        if len(alphabet) > 3:
            swarm["alphabet"] = alphabet = alphabet[:rng.choice([1, 2, 3])]
    big = rng.random()
    if not long_run and (big < 0.015 or (tier == "thorough" and big < 0.02)):  # (never both: 600 strings of 257 letters take minutes)
        # lists beyond any "small input" path: hundreds of tasks per pool, chunks of tens of rows
        swarm["max_n"] = 600 if (tier == "thorough" and big >= 0.015) else 150
        swarm["steps"] = 2
    take_w = [1.0] * 16
    deliver_w = [1.0] * 16
    deliver_bias = 1000.0
    if "reorder" in swarm["faults"]:
        deliver_bias = rng.choice([0.05, 0.3, 1.0])
        take_w = [rng.choice([0.2, 1.0, 1.0, 3.0]) for _ in range(16)]
    if "slow_worker" in swarm["faults"]:
        deliver_w[rng.randrange(16)] = 0.01
        deliver_w[rng.randrange(4)] = 0.01
        if deliver_bias > 10:
            deliver_bias = 1.0
    if "idle_workers" in swarm["faults"]:
        for i in rng.sample(range(16), rng.randint(1, 10)):
            take_w[i] = 0.0005
    sched = {"policy": "seeded", "seed": rng.getrandbits(32), "take_w": take_w, "deliver_w": deliver_w,
             "deliver_bias": deliver_bias, "eager": rng.choice([0.0, 0.0, 0.3, 0.7, 1.0]),
             "timeout_p": rng.choice([0.0, 0.0, 0.3, 1.0])}
    ops = []
    for _ in range(swarm["steps"]):
        mode = rng.choice(swarm["modes"])
        if mode == "custom":
            mode = rng.choice(["lev2", "lev_plus_len", "ham_or_big", "lev_half", "lev_frac", "lev_np", "lev_npf", "anti", "content"])
        n = rng.choice([1, 2, 3, rng.randint(1, swarm["max_n"]), rng.randint(2, swarm["max_n"]), swarm["max_n"]])
        n = max(1, min(n, swarm["max_n"]))
        if swarm["max_n"] >= 150 and rng.random() < 0.7:
            n = rng.randint(swarm["max_n"] // 3, swarm["max_n"])
        seqs = gen_seqs(rng, swarm, mode, n)
        if rng.random() < 0.05 and n >= 2:
            # (near-)identical lists: many duplicate points in the tree, all ties at d = 0
            seqs = [seqs[0]] * n if rng.random() < 0.5 else [rng.choice(seqs[:2]) for _ in range(n)]
        if rng.random() < 0.04 and n >= 2:
            # a letter outside the 20 standard residues (ambiguity codes, stop, gap, lower case) in one or two sequences, each next to
            # a neighbour that differs in exactly that letter: on the unchanged tree such input is rejected alike in every
            # configuration (KeyError from the histogram encoding); whatever the outcome is, it must not depend on the configuration
            odd = rng.choice("BZJXUO*-b")
            for _ in range(rng.choice([1, 2])):
                i, j = rng.sample(range(n), 2)
                if seqs[i]:
                    p_ = rng.randrange(len(seqs[i]))
                    seqs[j] = seqs[i][:p_] + odd + seqs[i][p_ + (0 if rng.random() < 0.3 else 1):]
        mr = None
        if rng.random() < swarm["max_returns_p"]:
            mr = rng.choice([1, 1, 2, 3, 5, 4, max(1, n - 1), n, 10 ** 6])
        mcd = None
        if mode not in ("default", "hamming"):
            mcd = rng.choice([None, None, 0, 1, 2.5, 4, 0.5, 1.25])
        elif rng.random() < 0.2:
            mcd = rng.choice([0, 1])  # documented as ignored without a custom distance
        ops.append({
            "op": "kdtree",
            "seqs": seqs,
            "max_edits": rng.choice([1, 1, 2, 2, 3, 3, 4]),
            "max_returns": mr,
            "n_cpu": gen_ncpu(rng, n),
            "mode": mode,
            "max_custom_distance": mcd,
            "compression": rng.choice([1, 1, 2, 3, 4, 5, 6, 7, 8, 9, 10, 19, 20, 21, 25]),
            "ref_first": rng.random() < 0.5,
            "container": rng.choice(["list", "list", "list", "ndarray", "tuple", "objarr"]),
            "output_type": rng.choice(["triplets", "triplets", "triplets", "ndarray", "coo_matrix"]),
            "raising_first": rng.random() < 0.06,
        })
    return {"property": PROP, "seed": seed, "tier": tier, "swarm": swarm, "ops": ops, "sched": sched}


# ---------------------------------------------------------------------------------------------
# model for sentence 2
# ---------------------------------------------------------------------------------------------
def true_neighbours(seqs, k, mode, mcd):
    n = len(seqs)
    cust = make_custom(mode) if mode not in ("default", "hamming") else None
    r = float("inf") if (mcd is None or cust is None) else mcd  # max_custom_distance is ignored without a custom distance
    N = [dict() for _ in range(n)]
    cache = {}
    for i in range(n):
        a = seqs[i]
        for j in range(i + 1, n):
            b = seqs[j]
            key = (a, b) if a <= b else (b, a)
            if key in cache:
                d = cache[key]
            else:
                if mode == "hamming":
                    d = oracles.hamming_or_none(a, b)
                    if d is not None and d > k:
                        d = None
                elif abs(len(a) - len(b)) > k:
                    d = None
                else:
                    e = oracles.levenshtein(a, b)
                    if e > k:
                        d = None
                    elif cust is None:
                        d = e
                    else:
                        d = cust(a, b)
                        if d > r:
                            d = None
                cache[key] = d
            if d is not None:
                N[i][j] = d
                N[j][i] = d
    return N


def check_sentence2(res, seqs, k, m, mode, mcd):
    """Return (oracle_id, detail) or None."""
    N = true_neighbours(seqs, k, mode, mcd)
    n = len(seqs)
    R = [dict() for _ in range(n)]
    for (i, j, d) in res:
        if not (0 <= i < n):
            return "not_true_neighbour", "query index %r out of range" % (i,)
        if j in R[i]:
            return "repeated_neighbour", "sequence %d reports neighbour %d twice" % (i, j)
        R[i][j] = d
    for i in range(n):
        for j, d in R[i].items():
            if j not in N[i]:
                return "not_true_neighbour", "(%d,%d,%r) reported but %r / %r are not neighbours (mode=%s k=%d)" % (
                    i, j, d, seqs[i], seqs[j] if 0 <= j < n else None, mode, k)
            if d != N[i][j]:
                return "wrong_distance", "(%d,%d) reported d=%r, true d=%r" % (i, j, d, N[i][j])
        want = min(m, len(N[i]))
        if len(R[i]) != want:
            return "count", "sequence %d (%r) reports %d neighbours, expected min(%d, %d)=%d" % (
                i, seqs[i], len(R[i]), m, len(N[i]), want)
        omitted = [d for j, d in N[i].items() if j not in R[i]]
        if omitted and R[i] and max(R[i].values()) > min(omitted):
            return "closer_omitted", "sequence %d: reported max d=%r but an omitted neighbour has d=%r" % (
                i, max(R[i].values()), min(omitted))
    return None


# ---------------------------------------------------------------------------------------------
# execution
# ---------------------------------------------------------------------------------------------
def _container(seqs, kind):
    import numpy as np

    if kind == "ndarray":
        return np.array(seqs)
    if kind == "objarr":
        return np.array(seqs, dtype=object)
    if kind == "tuple":
        return tuple(seqs)
    return list(seqs)


class _Raising:
    """Custom distance that passes the argument check (f(first, first) == 0) and raises on its third call."""

    def __init__(self):
        self.calls = 0

    def __call__(self, a, b):
        self.calls += 1
        if self.calls >= 3:
            raise RuntimeError("injected failure inside a custom distance")
        return 0 if a == b else 1


def execute(trace, ctx=None):
    import pyrepseq.nn as nn

    CTL.configure(trace.get("sched"))
    stats = {"steps": 0, "kdtree_calls": 0}
    log = []
    classes = []
    violation = None

    def probe(name, cond=True):
        if cond:
            stats[name] = stats.get(name, 0) + 1

    for step, op in enumerate(trace["ops"]):
        seqs = op["seqs"]
        n = len(seqs)
        k, m, mode, mcd = op["max_edits"], op["max_returns"], op["mode"], op["max_custom_distance"]
        cd = make_custom(mode)
        npools_before = len(CTL.pools)

        otype = op.get("output_type", "triplets")
        if op.get("raising_first"):
            # an earlier call of the history that fails inside the user's distance function (in the parent or in a worker):
            # its own outcome is not judged; what it leaves behind (parameter block, pool) must not matter to the calls below
            try:
                nn.kdtree(list(seqs), max_edits=k, n_cpu=op["n_cpu"], custom_distance=_Raising())
            except HarnessError:
                raise
            except BaseException:
                pass
            probe("fault_fired_callback_raise")

        def call(n_cpu, compression):
            stats["kdtree_calls"] += 1
            arg = _container(seqs, op.get("container", "list"))
            kw = dict(max_edits=k, max_returns=m, n_cpu=n_cpu, custom_distance=cd, compression=compression, output_type=otype)
            if mcd is not None:
                kw["max_custom_distance"] = mcd
            try:
                r = nn.kdtree(arg, **kw)
                if otype != "triplets":
                    import numpy as np

                    dense = r.toarray() if otype == "coo_matrix" else np.asarray(r)
                    return ("value", [list(dense.shape)] + [[float(x) for x in row] for row in dense.tolist()])
                return ("value", oracles.canon_triplets(r))
            except HarnessError:
                raise
            except Exception as e:
                return ("raise", type(e).__name__, str(e)[:160])

        if op.get("ref_first"):
            ref = call(1, 1)
            cfg = call(op["n_cpu"], op["compression"])
        else:
            cfg = call(op["n_cpu"], op["compression"])
            ref = call(1, 1)
        stats["steps"] += 1
        log.append([cfg, ref])

        # probes / configuration class
        ncpu = op["n_cpu"]
        lens = sorted(set(len(s) for s in seqs))
        probe("n_cpu_gt_len", ncpu > n)
        probe("n_cpu_eq_len", ncpu == n and n > 1)
        probe("chunk_remainder", ncpu > 1 and n % ncpu != 0 and ncpu <= n)
        probe("single_sequence", n == 1)
        probe("multi_bucket_hamming", mode == "hamming" and len(lens) > 1)
        probe("compressed", op["compression"] > 1)
        probe("max_returns_set", m is not None)
        probe("mode_" + ("custom" if mode not in ("default", "hamming") else mode))
        probe("pooled_step", ncpu > 1)
        probe("pool_after_earlier_call", ncpu > 1 and (step > 0 or op.get("ref_first")))
        classes.append([(ncpu > n) - (ncpu < n), n % ncpu == 0, n // ncpu, -(-20 // op["compression"]), mode,
                        "none" if m is None else min(m, 3), len(lens) > 1])

        # oracle 1: sentence 1
        if cfg[0] == "raise" and ref[0] == "value":
            violation = {"oracle": "call_raised_in_config_only", "op": "kdtree", "step": step,
                         "detail": "kdtree(n=%d, n_cpu=%d, compression=%d, mode=%s, max_edits=%d, max_returns=%r) raised %s: %s "
                                   "while the n_cpu=1, compression=1 call returned %d triplets" % (
                                       n, ncpu, op["compression"], mode, k, m, cfg[1], cfg[2], len(ref[1]))}
        elif cfg[0] == "value" and ref[0] == "raise":
            violation = {"oracle": "config_differs", "op": "kdtree", "step": step,
                         "detail": "configured call returned %d triplets but the reference call raised %s: %s" % (
                             len(cfg[1]), ref[1], ref[2])}
        elif cfg[0] == "value" and m is None and otype != "triplets" and cfg[1] != ref[1]:
            violation = {"oracle": "config_differs", "op": "kdtree", "step": step,
                         "detail": "n=%d n_cpu=%d compression=%d mode=%s k=%d output_type=%s: the dense matrices differ (shapes %r vs %r)" % (
                             n, ncpu, op["compression"], mode, k, otype, cfg[1][0], ref[1][0])}
        elif cfg[0] == "value" and m is None and cfg[1] != ref[1]:
            a, b = set(cfg[1]), set(ref[1])
            violation = {"oracle": "config_differs", "op": "kdtree", "step": step,
                         "detail": "n=%d n_cpu=%d compression=%d mode=%s k=%d: configured-only %r ; reference-only %r ; sizes %d vs %d" % (
                             n, ncpu, op["compression"], mode, k, sorted(a - b)[:6], sorted(b - a)[:6], len(cfg[1]), len(ref[1]))}
        # oracle 2: sentence 2
        if violation is None and m is not None and otype == "triplets":
            for which, res in (("configured", cfg), ("reference", ref)):
                if res[0] != "value":
                    continue
                bad = check_sentence2(res[1], seqs, k, m, mode, mcd)
                if bad:
                    violation = {"oracle": bad[0], "op": "kdtree", "step": step,
                                 "detail": "%s call (n_cpu=%d compression=%d mode=%s k=%d max_returns=%d): %s" % (
                                     which, ncpu if which == "configured" else 1,
                                     op["compression"] if which == "configured" else 1, mode, k, m, bad[1])}
                    break
        if violation:
            break

    summ = CTL.summary()
    stats["pools"] = summ["pools"]
    stats["sched_events"] = summ["events"]
    stats["pool_tasks"] = summ["tasks"]
    stats["out_of_order_delivery"] = summ["out_of_order_delivery"]
    stats["seam_timed_wait_expired"] = summ.get("timed_wait_expired", 0)
    stats["seam_sleep_calls"] = summ.get("sleep_seam_calls", 0)
    stats["worker_never_used"] = summ["worker_never_used"]
    stats["multi_chunk_pools"] = summ["multi_chunk_pools"]
    faults = (trace.get("swarm") or {}).get("faults", [])
    for f in faults:
        stats["fault_configured_" + f] = 1
    if "reorder" in faults and summ["out_of_order_delivery"]:
        stats["fault_fired_reorder"] = summ["out_of_order_delivery"]
    if "slow_worker" in faults and summ["out_of_order_delivery"]:
        stats["fault_fired_slow_worker"] = 1
    if "idle_workers" in faults and summ["worker_never_used"]:
        stats["fault_fired_idle_workers"] = summ["worker_never_used"]
    sig = digest([classes, summ["signatures"]])
    return {
        "violation": violation,
        "digest": digest([log, CTL.decisions]),
        "stats": stats,
        "sets": {"schedule_signatures": [s for s in summ["signatures"] if s], "config_classes": [digest(c) for c in classes]},
        "sig": sig,
        "nontrivial": summ["multi_chunk_pools"] > 0,
        "sched_decisions": CTL.decisions[:400],
    }


# ---------------------------------------------------------------------------------------------
# minimisation support
# ---------------------------------------------------------------------------------------------
def with_ops(trace, keep):
    t = dict(trace)
    t["ops"] = [trace["ops"][i] for i in keep]
    return t


def _rep(trace, i, **changes):
    t = dict(trace)
    ops = list(trace["ops"])
    ops[i] = dict(ops[i], **changes)
    t["ops"] = ops
    return t


def candidates(trace):
    if trace.get("sched", {}).get("policy") != "fifo":
        yield dict(trace, sched={"policy": "fifo"})
    for i, op in enumerate(trace["ops"]):
        seqs = op["seqs"]
        n = len(seqs)
        if n > 1:
            h = n // 2
            if h >= 1 and n > 2:
                yield _rep(trace, i, seqs=seqs[:h])
                yield _rep(trace, i, seqs=seqs[h:])
            for j in range(n):
                yield _rep(trace, i, seqs=seqs[:j] + seqs[j + 1:])
        if op["compression"] != 1:
            yield _rep(trace, i, compression=1)
        if op["n_cpu"] > 2:
            yield _rep(trace, i, n_cpu=2)
            yield _rep(trace, i, n_cpu=op["n_cpu"] - 1)
        if op["n_cpu"] == 2:
            yield _rep(trace, i, n_cpu=1)
        if op["max_edits"] > 1:
            yield _rep(trace, i, max_edits=op["max_edits"] - 1)
        if op["max_returns"] is not None:
            yield _rep(trace, i, max_returns=None)
            if op["max_returns"] > 1:
                yield _rep(trace, i, max_returns=1)
        if op["mode"] != "default":
            yield _rep(trace, i, mode="default", max_custom_distance=None)
        if op["max_custom_distance"] is not None:
            yield _rep(trace, i, max_custom_distance=None)
        if op.get("container") != "list":
            yield _rep(trace, i, container="list")
        if op.get("ref_first"):
            yield _rep(trace, i, ref_first=False)
        if op.get("output_type", "triplets") != "triplets":
            yield _rep(trace, i, output_type="triplets")
        if op.get("raising_first"):
            yield _rep(trace, i, raising_first=False)
        for j, s in enumerate(seqs):
            if len(s) > 1:
                for cut in (0, len(s) - 1):
                    ns = s[:cut] + s[cut + 1:]
                    yield _rep(trace, i, seqs=seqs[:j] + [ns] + seqs[j + 1:])


def signature(trace, v):
    step = min(v.get("step", 0), len(trace["ops"]) - 1)
    op = trace["ops"][step]
    n = len(op["seqs"])
    lens = set(len(s) for s in op["seqs"])
    mode = op["mode"] if op["mode"] in ("default", "hamming") else "custom"
    parts = [PROP, v["oracle"], mode,
             "n_cpu>len" if op["n_cpu"] > n else ("n_cpu=1" if op["n_cpu"] == 1 else "1<n_cpu<=len"),
             "mixed_lengths" if len(lens) > 1 else "one_length",
             "compressed" if op["compression"] > 1 else "uncompressed",
             "first_call" if len(trace["ops"]) == 1 else "after_earlier_call"]
    return "/".join(parts)


# ---------------------------------------------------------------------------------------------
# extras: SimPool fidelity against the real multiprocessing.Pool
# ---------------------------------------------------------------------------------------------
def run_extra(job, ctx):
    if job["kind"] == "fidelity":
        import pyrepseq.nn as nn
        from . import simpool

        op = job["op"]
        cd = make_custom(op["mode"])
        kw = dict(max_edits=op["max_edits"], max_returns=None, n_cpu=op["n_cpu"], custom_distance=cd,
                  compression=op["compression"])

        def call():
            try:
                return ("value", oracles.canon_triplets(nn.kdtree(list(op["seqs"]), **kw)))
            except HarnessError:
                raise
            except Exception as e:
                return ("raise", type(e).__name__)

        CTL.configure({"policy": "seeded", "seed": job["seed"]})
        sim = call()
        simpool.uninstall()
        try:
            real = call()
        finally:
            simpool.install()
        return {"match": sim == real, "sim": sim if sim != real else None, "real": real if sim != real else None,
                "pooled": op["n_cpu"] > 1}
    raise HarnessError("unknown job kind %r" % job["kind"])


def extras(farm, batch_seed, tier, cfg, harness_errors, viols):
    from .core import derive_seed

    jobs = []
    i = 0
    while len(jobs) < cfg.get("fidelity", 0) and i < 10000:
        t = generate(derive_seed(batch_seed, PROP + "-fidelity", i), tier, i)
        i += 1
        for op in t["ops"]:
            if op["n_cpu"] > 1 and len(jobs) < cfg["fidelity"]:
                jobs.append({"kind": "fidelity", "op": op, "seed": t["sched"]["seed"]})
    checked = mism = 0
    for job, res in farm.run(jobs, RUN_TIMEOUT):
        if "harness_error" in res:
            harness_errors.append({"error": "fidelity job: " + res["harness_error"]})
            continue
        checked += 1
        if not res["match"]:
            mism += 1
            harness_errors.append({"error": "SimPool and the real multiprocessing.Pool disagree (stub fidelity)",
                                   "op": job["op"], "sim": str(res["sim"])[:300], "real": str(res["real"])[:300]})
    return {"pool_fidelity": {"configs_checked_against_real_pool": checked, "mismatches": mism}}
