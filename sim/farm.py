"""Process farm: W zygotes, each forking one pristine child per job.

main (vcheck)  — has imported pyrepseq + the property module and installed the seams, and never
                 calls into pyrepseq;
  zygote × W   — fork of main; loops on a pipe, never calls into pyrepseq either;
    job child  — fork of a zygote: executes exactly one job (one simulated run) and exits.

Every job therefore starts from the memory image of an interpreter that has only *imported*
pyrepseq, whatever ran before it and on whichever zygote it lands.
"""
import faulthandler
import os
import random
import select
import signal
import sys
import time
import traceback
from multiprocessing.connection import Pipe, wait

from .core import HarnessError

CONTEXT = {}
BASE = None             # directory of this vcheck invocation that holds the private directories of its job children
SANDBOX = None          # private directory of the current job child (cwd, HOME, TMPDIR live in it)
OUTSIDE_WRITES = []     # files opened for writing outside SANDBOX by the code under simulation (diagnostic)
_SANDBOX_ENV = ("HOME", "XDG_CACHE_HOME", "XDG_CONFIG_HOME", "XDG_DATA_HOME", "TMPDIR", "TEMP", "TMP")


def _enter_sandbox():
    """The file system seam: every job child (simulated run or pristine execution) gets an empty private directory as its
    working directory, HOME and temp dir, so that files are part of the run's own history - a cache file written by one call
    is seen by the later calls of the same run and by nothing else - and nothing lands in /verif."""
    global SANDBOX
    import tempfile

    d = os.path.join(BASE, "run-%d" % os.getpid()) if BASE else tempfile.mkdtemp(prefix="verif-run-")
    os.makedirs(d, exist_ok=True)
    for sub in ("home", "tmp", "cwd"):
        os.mkdir(os.path.join(d, sub))
    home = os.path.join(d, "home")
    os.environ.update(HOME=home, XDG_CACHE_HOME=os.path.join(home, ".cache"), XDG_CONFIG_HOME=os.path.join(home, ".config"),
                      XDG_DATA_HOME=os.path.join(home, ".local", "share"), TMPDIR=os.path.join(d, "tmp"),
                      TEMP=os.path.join(d, "tmp"), TMP=os.path.join(d, "tmp"))
    tempfile.tempdir = None
    os.chdir(os.path.join(d, "cwd"))
    SANDBOX = d
    wr = os.O_WRONLY | os.O_RDWR | os.O_CREAT | os.O_APPEND | os.O_TRUNC

    def hook(event, args):
        if event == "open" and SANDBOX is not None:
            path, mode, flags = (tuple(args) + (None, None, None))[:3]
            if isinstance(path, (str, bytes)) and ((isinstance(flags, int) and flags & wr) or (isinstance(mode, str) and set(mode) & set("wax+"))):
                q = os.path.abspath(os.fsdecode(path))
                if not q.startswith(SANDBOX) and not q.startswith("/dev/") and len(OUTSIDE_WRITES) < 20:
                    OUTSIDE_WRITES.append(q)

    sys.addaudithook(hook)
    return d


def sandbox_listing():
    """Relative path -> size of every file in the job's private directory (deterministic order)."""
    out = {}
    if SANDBOX is None:
        return out
    for root, dirs, files in os.walk(SANDBOX):
        dirs.sort()
        for f in sorted(files):
            q = os.path.join(root, f)
            try:
                out[os.path.relpath(q, SANDBOX)] = os.path.getsize(q)
            except OSError:
                pass
    return out


def sandbox_environ():
    """os.environ without the entries that name the private directory itself."""
    return {k: v for k, v in os.environ.items() if k not in _SANDBOX_ENV}


def _leave_sandbox():
    global SANDBOX
    import shutil

    d, SANDBOX = SANDBOX, None
    if d:
        try:
            os.chdir("/")
        except OSError:
            pass
        shutil.rmtree(d, ignore_errors=True)


def _normalise_process_state():
    import numpy as np

    random.seed(0)
    np.random.seed(0)


def _job_child(conn, handler, job, timeout):
    """Runs in the forked job child.  Never returns."""
    code = 0
    try:
        os.setpgid(0, 0)
        signal.signal(signal.SIGINT, signal.SIG_DFL)
        faulthandler.enable()
        faulthandler.dump_traceback_later(max(1.0, timeout - 1.0), exit=False)
        _normalise_process_state()
        _enter_sandbox()
        try:
            res = handler(job, CONTEXT)
        except HarnessError as e:
            res = {"harness_error": "HarnessError: %s" % e, "tb": traceback.format_exc()}
        except BaseException as e:  # a bug in the harness, not in pyrepseq
            res = {"harness_error": "%s: %s" % (type(e).__name__, e), "tb": traceback.format_exc()}
        faulthandler.cancel_dump_traceback_later()
        try:
            if isinstance(res, dict):
                files = sandbox_listing()
                if files:
                    res["files_left"] = sorted(files)[:20]
                if OUTSIDE_WRITES:
                    res["outside_writes"] = sorted(set(OUTSIDE_WRITES))
        except Exception:
            pass
        try:
            from . import simpool

            simpool.terminate_all()
            if simpool.leftover_children():
                res.setdefault("warnings", []).append("un-reaped child process at run end")
        except Exception:
            pass
        conn.send(res)
        conn.close()
        _leave_sandbox()
    except BaseException:
        code = 3
        try:
            traceback.print_exc()
        except Exception:
            pass
    finally:
        sys.stdout.flush()
        sys.stderr.flush()
        os._exit(code)


def _zygote_loop(conn, handler):
    """Runs in the zygote.  Never returns."""
    global CONTEXT
    try:
        signal.signal(signal.SIGINT, signal.SIG_IGN)
        while True:
            try:
                msg = conn.recv()
            except EOFError:
                break
            kind = msg[0]
            if kind == "stop":
                break
            if kind == "ctx":
                CONTEXT = msg[1]
                continue
            _, jid, job, timeout = msg
            r, w = Pipe(duplex=False)
            sys.stdout.flush()
            sys.stderr.flush()
            pid = os.fork()
            if pid == 0:
                r.close()
                conn.close()
                _job_child(w, handler, job, timeout)
            w.close()
            res = None
            try:
                if r.poll(timeout):
                    res = r.recv()
                else:
                    res = {"harness_error": "timeout after %.0fs" % timeout}
            except EOFError:
                res = {"harness_error": "job child died without a result"}
            except Exception as e:
                res = {"harness_error": "result transfer failed: %r" % (e,)}
            r.close()
            try:
                os.killpg(pid, signal.SIGKILL)
            except (ProcessLookupError, PermissionError):
                pass
            try:
                os.kill(pid, signal.SIGKILL)
            except ProcessLookupError:
                pass
            try:
                _, status = os.waitpid(pid, 0)
                if res is not None and "harness_error" in res and "exit" not in res:
                    res["exit"] = status
            except ChildProcessError:
                pass
            if BASE:  # a job child that was killed could not remove its private directory itself
                import shutil

                shutil.rmtree(os.path.join(BASE, "run-%d" % pid), ignore_errors=True)
            conn.send((jid, res))
    except BaseException:
        traceback.print_exc()
    finally:
        os._exit(0)


class Farm:
    def __init__(self, handler, workers):
        global BASE
        if BASE is None:
            import atexit
            import shutil
            import tempfile

            BASE = tempfile.mkdtemp(prefix="verif-")
            atexit.register(lambda b=BASE, p=os.getpid(): shutil.rmtree(b, ignore_errors=True) if os.getpid() == p else None)
        self.handler = handler
        self.workers = workers
        self.z = []  # (pid, conn)
        self.busy = {}
        self._ctx = None
        for _ in range(workers):
            self._spawn()

    def _spawn(self):
        parent, child = Pipe(duplex=True)
        sys.stdout.flush()
        sys.stderr.flush()
        pid = os.fork()
        if pid == 0:
            # one core per zygote (and per everything it forks): the native thread pools of the dependencies
            # (rapidfuzz cdist(workers=-1), KDTree workers) otherwise start 16 threads in each of 16 processes
            try:
                cores = sorted(os.sched_getaffinity(0))
                if os.environ.get("VERIF_PIN", "1") == "1" and len(cores) > 1:
                    os.sched_setaffinity(0, {cores[len(self.z) % len(cores)]})
            except (AttributeError, OSError):
                pass
            parent.close()
            for _, c in self.z:
                try:
                    c.close()
                except Exception:
                    pass
            _zygote_loop(child, self.handler)
        child.close()
        if self._ctx is not None:
            parent.send(("ctx", self._ctx))
        self.z.append((pid, parent))
        return parent

    def set_context(self, ctx):
        self._ctx = ctx
        for _, c in self.z:
            c.send(("ctx", ctx))

    def run(self, jobs, timeout, deadline=None):
        """Execute jobs (an iterable) and yield (job, result) in completion order.

        Stops handing out new jobs once time.monotonic() > deadline (jobs in flight complete)."""
        it = iter(enumerate(jobs))
        inflight = {}  # conn -> (jid, job)
        idle = [c for _, c in self.z]
        exhausted = False
        while True:
            while idle and not exhausted:
                if deadline is not None and time.monotonic() > deadline:
                    exhausted = True
                    break
                try:
                    jid, job = next(it)
                except StopIteration:
                    exhausted = True
                    break
                c = idle.pop()
                c.send(("job", jid, job, timeout))
                inflight[c] = (jid, job)
            if not inflight:
                break
            ready = wait(list(inflight), timeout=timeout + 30)
            if not ready:
                raise HarnessError("farm: zygotes unresponsive")
            for c in ready:
                jid, job = inflight.pop(c)
                try:
                    rid, res = c.recv()
                except EOFError:
                    res = {"harness_error": "zygote died"}
                    # replace the zygote
                    self.z = [(p, cc) for p, cc in self.z if cc is not c]
                    c = self._spawn()
                idle.append(c)
                yield job, res

    def one(self, job, timeout):
        for _, res in self.run([job], timeout):
            return res

    def close(self):
        for pid, c in self.z:
            try:
                c.send(("stop",))
                c.close()
            except Exception:
                pass
        for pid, c in self.z:
            try:
                os.waitpid(pid, 0)
            except ChildProcessError:
                pass
        self.z = []
