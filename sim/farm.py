"""Process farm: W zygotes, each forking one pristine child per job.

main (vcheck)  — has imported pyrepseq + the property module and installed the seams, and never
                 calls into pyrepseq;
  zygote × W   — fork of main; loops on a pipe, never calls into pyrepseq either;
    job child  — fork of a zygote: executes exactly one job (one simulated run) and exits.

Every job therefore starts from the memory image of an interpreter that has only *imported*
pyrepseq, whatever ran before it and on whichever zygote it lands.
"""
import faulthandler
import os
import random
import select
import signal
import sys
import time
import traceback
from multiprocessing.connection import Pipe, wait

from .core import HarnessError

CONTEXT = {}


def _normalise_process_state():
    import numpy as np

    random.seed(0)
    np.random.seed(0)


def _job_child(conn, handler, job, timeout):
    """Runs in the forked job child.  Never returns."""
    code = 0
    try:
        os.setpgid(0, 0)
        signal.signal(signal.SIGINT, signal.SIG_DFL)
        faulthandler.enable()
        faulthandler.dump_traceback_later(max(1.0, timeout - 1.0), exit=False)
        _normalise_process_state()
        try:
            res = handler(job, CONTEXT)
        except HarnessError as e:
            res = {"harness_error": "HarnessError: %s" % e, "tb": traceback.format_exc()}
        except BaseException as e:  # a bug in the harness, not in pyrepseq
            res = {"harness_error": "%s: %s" % (type(e).__name__, e), "tb": traceback.format_exc()}
        faulthandler.cancel_dump_traceback_later()
        try:
            from . import simpool

            simpool.terminate_all()
            if simpool.leftover_children():
                res.setdefault("warnings", []).append("un-reaped child process at run end")
        except Exception:
            pass
        conn.send(res)
        conn.close()
    except BaseException:
        code = 3
        try:
            traceback.print_exc()
        except Exception:
            pass
    finally:
        sys.stdout.flush()
        sys.stderr.flush()
        os._exit(code)


def _zygote_loop(conn, handler):
    """Runs in the zygote.  Never returns."""
    global CONTEXT
    try:
        signal.signal(signal.SIGINT, signal.SIG_IGN)
        while True:
            try:
                msg = conn.recv()
            except EOFError:
                break
            kind = msg[0]
            if kind == "stop":
                break
            if kind == "ctx":
                CONTEXT = msg[1]
                continue
            _, jid, job, timeout = msg
            r, w = Pipe(duplex=False)
            sys.stdout.flush()
            sys.stderr.flush()
            pid = os.fork()
            if pid == 0:
                r.close()
                conn.close()
                _job_child(w, handler, job, timeout)
            w.close()
            res = None
            try:
                if r.poll(timeout):
                    res = r.recv()
                else:
                    res = {"harness_error": "timeout after %.0fs" % timeout}
            except EOFError:
                res = {"harness_error": "job child died without a result"}
            except Exception as e:
                res = {"harness_error": "result transfer failed: %r" % (e,)}
            r.close()
            try:
                os.killpg(pid, signal.SIGKILL)
            except (ProcessLookupError, PermissionError):
                pass
            try:
                os.kill(pid, signal.SIGKILL)
            except ProcessLookupError:
                pass
            try:
                _, status = os.waitpid(pid, 0)
                if res is not None and "harness_error" in res and "exit" not in res:
                    res["exit"] = status
            except ChildProcessError:
                pass
            conn.send((jid, res))
    except BaseException:
        traceback.print_exc()
    finally:
        os._exit(0)


class Farm:
    def __init__(self, handler, workers):
        self.handler = handler
        self.workers = workers
        self.z = []  # (pid, conn)
        self.busy = {}
        self._ctx = None
        for _ in range(workers):
            self._spawn()

    def _spawn(self):
        parent, child = Pipe(duplex=True)
        sys.stdout.flush()
        sys.stderr.flush()
        pid = os.fork()
        if pid == 0:
            # one core per zygote (and per everything it forks): the native thread pools of the dependencies
            # (rapidfuzz cdist(workers=-1), KDTree workers) otherwise start 16 threads in each of 16 processes
            try:
                cores = sorted(os.sched_getaffinity(0))
                if os.environ.get("VERIF_PIN", "1") == "1" and len(cores) > 1:
                    os.sched_setaffinity(0, {cores[len(self.z) % len(cores)]})
            except (AttributeError, OSError):
                pass
            parent.close()
            for _, c in self.z:
                try:
                    c.close()
                except Exception:
                    pass
            _zygote_loop(child, self.handler)
        child.close()
        if self._ctx is not None:
            parent.send(("ctx", self._ctx))
        self.z.append((pid, parent))
        return parent

    def set_context(self, ctx):
        self._ctx = ctx
        for _, c in self.z:
            c.send(("ctx", ctx))

    def run(self, jobs, timeout, deadline=None):
        """Execute jobs (an iterable) and yield (job, result) in completion order.

        Stops handing out new jobs once time.monotonic() > deadline (jobs in flight complete)."""
        it = iter(enumerate(jobs))
        inflight = {}  # conn -> (jid, job)
        idle = [c for _, c in self.z]
        exhausted = False
        while True:
            while idle and not exhausted:
                if deadline is not None and time.monotonic() > deadline:
                    exhausted = True
                    break
                try:
                    jid, job = next(it)
                except StopIteration:
                    exhausted = True
                    break
                c = idle.pop()
                c.send(("job", jid, job, timeout))
                inflight[c] = (jid, job)
            if not inflight:
                break
            ready = wait(list(inflight), timeout=timeout + 30)
            if not ready:
                raise HarnessError("farm: zygotes unresponsive")
            for c in ready:
                jid, job = inflight.pop(c)
                try:
                    rid, res = c.recv()
                except EOFError:
                    res = {"harness_error": "zygote died"}
                    # replace the zygote
                    self.z = [(p, cc) for p, cc in self.z if cc is not c]
                    c = self._spawn()
                idle.append(c)
                yield job, res

    def one(self, job, timeout):
        for _, res in self.run([job], timeout):
            return res

    def close(self):
        for pid, c in self.z:
            try:
                c.send(("stop",))
                c.close()
            except Exception:
                pass
        for pid, c in self.z:
            try:
                os.waitpid(pid, 0)
            except ChildProcessError:
                pass
        self.z = []
