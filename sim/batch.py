"""Batch driver shared by all property checks: seeded runs on the farm, minimisation, replay
verification, known-findings handling, evidence.  Wall-clock is read here only (budgets, rates)."""
import importlib
import json
import os
import subprocess
import sys
import time

from . import farm as farm_mod
from .core import DEFAULT_SEED, HarnessError, derive_seed, digest, jdump, repo_root

VERIF = os.path.dirname(os.path.dirname(os.path.abspath(__file__)))
MAX_CLASSES = 3
PROPS = {"C03": "sim.c03", "C11": "sim.c11", "C17": "sim.c17", "C20": "sim.c20"}


def load(prop):
    return importlib.import_module(PROPS[prop])


def make_handler(mod):
    def handler(job, ctx):
        kind = job["kind"]
        if kind == "run":
            if mod.generate.__code__.co_argcount >= 4:
                trace = mod.generate(job["seed"], job["tier"], job["index"], job.get("batch_seed"))
            else:
                trace = mod.generate(job["seed"], job["tier"], job["index"])
            res = mod.execute(trace, ctx)
            if "executed_ops" in res:  # ops appended at run time (directed probes) become part of the explicit trace
                trace = dict(trace, ops=res.pop("executed_ops"), dynamic=False)
            res["index"] = job["index"]
            res["seed"] = job["seed"]
            if res.get("violation") or job.get("want_trace"):
                res["trace"] = trace
            return res
        if kind == "exec":
            res = mod.execute(job["trace"], ctx)
            res.pop("executed_ops", None)
            if job.get("want_trace"):
                res["trace"] = job["trace"]
            return res
        return mod.run_extra(job, ctx)

    return handler


def vclass(v):
    return (v["oracle"], v.get("op", ""))


# ---------------------------------------------------------------------------------------------
# minimisation (delta debugging over the explicit op list, then property-specific shrinking)
# ---------------------------------------------------------------------------------------------
class Minimiser:
    def __init__(self, farm, mod, key, timeout, max_execs=400, max_s=90.0):
        self.farm, self.mod, self.key, self.timeout = farm, mod, key, timeout
        self.max_execs, self.deadline = max_execs, time.monotonic() + max_s
        self.execs = 0

    def spent(self):
        return self.execs >= self.max_execs or time.monotonic() > self.deadline

    def test_many(self, cands):
        """Return index of first candidate (in list order) that still shows the same violation class."""
        if not cands or self.spent():
            return None, None
        jobs = [{"kind": "exec", "trace": c, "_i": i} for i, c in enumerate(cands)]
        ok = {}
        for job, res in self.farm.run(jobs, self.timeout):
            self.execs += 1
            v = res.get("violation") if isinstance(res, dict) else None
            if v and vclass(v) == self.key:
                ok[job["_i"]] = v
        if not ok:
            return None, None
        i = min(ok)
        return i, ok[i]

    def run(self, trace, viol):
        mod = self.mod
        cur, curv = trace, viol
        changed = True
        rounds = 0
        while changed and not self.spent() and rounds < 20:
            changed = False
            rounds += 1
            # 1. drop ops: chunks of decreasing size
            n = len(cur["ops"])
            size = max(1, n // 2)
            while size >= 1 and not self.spent():
                n = len(cur["ops"])
                cands = []
                for start in range(0, n, size):
                    keep = [i for i in range(n) if not (start <= i < start + size)]
                    if not keep:
                        continue
                    c = mod.with_ops(cur, keep)
                    if c is not None:
                        cands.append(c)
                i, v = self.test_many(cands)
                if i is not None:
                    cur, curv, changed = cands[i], v, True
                    continue
                if size == 1:
                    break
                size = max(1, size // 2)
            # 2. property-specific simplifications, greedy, in batches
            progress = True
            while progress and not self.spent():
                progress = False
                batch = []
                for c in mod.candidates(cur):
                    batch.append(c)
                    if len(batch) >= 2 * self.farm.workers:
                        i, v = self.test_many(batch)
                        if i is not None:
                            cur, curv, changed, progress = batch[i], v, True, True
                            break
                        batch = []
                else:
                    i, v = self.test_many(batch)
                    if i is not None:
                        cur, curv, changed, progress = batch[i], v, True, True
        return cur, curv


# ---------------------------------------------------------------------------------------------
# known findings
# ---------------------------------------------------------------------------------------------
def load_known():
    path = os.path.join(VERIF, "known_findings.json")
    try:
        with open(path) as f:
            return json.load(f).get("findings", [])
    except FileNotFoundError:
        return []


def known_match(prop, sig, status="known"):
    for e in load_known():
        if e.get("property") == prop and e.get("status") == status and e.get("signature") == sig:
            return e
    return None


# ---------------------------------------------------------------------------------------------
# the check
# ---------------------------------------------------------------------------------------------
def merge_stats(total, part):
    for k, v in (part or {}).items():
        total[k] = total.get(k, 0) + v


def merge_sets(total, part, cap=200000):
    for k, v in (part or {}).items():
        s = total.setdefault(k, set())
        if len(s) < cap:
            for x in v:
                s.add(tuple(x) if isinstance(x, list) else x)


def run_check(prop, tier, batch_seed=None, workers=None, runs=None, budget=None, write_evidence=True):
    t0 = time.monotonic()
    if batch_seed is None:
        batch_seed = int(os.environ.get("VERIF_SEED", DEFAULT_SEED))
    if workers is None:
        workers = int(os.environ.get("VERIF_WORKERS", "16"))
    mod = load(prop)
    cfg = dict(mod.TIERS[tier])
    if runs is not None:
        cfg["runs"] = runs
    if budget is not None:
        cfg["budget_s"] = budget
    if os.environ.get("VERIF_RUNS"):
        cfg["runs"] = int(os.environ["VERIF_RUNS"])
    if os.environ.get("VERIF_BUDGET"):
        cfg["budget_s"] = float(os.environ["VERIF_BUDGET"])
    print("seed=%d property=%s tier=%s workers=%d repo=%s runs<=%d budget=%ss" % (
        batch_seed, prop, tier, workers, repo_root(), cfg["runs"], cfg["budget_s"]), flush=True)

    farm = farm_mod.Farm(make_handler(mod), workers)
    harness_errors = []
    stats, sets = {}, {}
    sigs = set()
    nontrivial_sigs = set()
    samples = []
    viols = {}  # class -> (index, result)
    extra = {}
    n_done = 0
    try:
        # phase 0: property-specific preparation (e.g. C20's pristine-outcome table)
        ctx = None
        if hasattr(mod, "prepare"):
            ctx = mod.prepare(farm, batch_seed, tier, cfg, harness_errors)
            if ctx is not None:
                farm.set_context(ctx)

        # phase 1: seeded runs (the budget is the budget of this phase: a long preparation must not eat the runs)
        deadline = max(t0 + cfg["budget_s"], time.monotonic() + 0.5 * cfg["budget_s"])
        state = {"stop_after": None}

        def jobs():
            for i in range(cfg["runs"]):
                if state["stop_after"] is not None and i >= state["stop_after"]:
                    return
                yield {"kind": "run", "index": i, "tier": tier, "seed": derive_seed(batch_seed, prop, i), "batch_seed": batch_seed,
                       "want_trace": i < 3}

        retry = []
        t_runs0 = time.monotonic()
        handed = 0
        for job, res in farm.run(jobs(), mod.RUN_TIMEOUT, deadline):
            handed = max(handed, job["index"] + 1)
            if "harness_error" in res:
                retry.append(job)
                continue
            n_done += 1
            _absorb(res, stats, sets, sigs, nontrivial_sigs, samples, viols)
            if viols and state["stop_after"] is None:
                state["stop_after"] = handed + max(200, cfg["runs"] // 10)
            if len(viols) >= MAX_CLASSES and state["stop_after"] is not None:
                state["stop_after"] = min(state["stop_after"], handed)
        for job, res in farm.run(retry, mod.RUN_TIMEOUT * 2):
            if "harness_error" in res:
                harness_errors.append({"job": {k: job[k] for k in ("kind", "index", "seed")}, "error": res["harness_error"],
                                       "tb": res.get("tb", "")[-2000:]})
                continue
            n_done += 1
            _absorb(res, stats, sets, sigs, nontrivial_sigs, samples, viols)
        t_runs = time.monotonic() - t_runs0
        if n_done == 0:
            harness_errors.append({"error": "no run was executed (budget %ss used up before the run phase, or every run failed)" % cfg["budget_s"]})

        # phase 2: property-specific extra jobs (uniformity, pool fidelity, determinism self-test)
        if hasattr(mod, "extras"):
            extra = mod.extras(farm, batch_seed, tier, cfg, harness_errors, viols) or {}
        det = determinism_selftest(farm, mod, prop, tier, batch_seed, harness_errors,
                                   n=cfg.get("selftest_seeds", 16), cross=cfg.get("selftest_cross", False))
        extra["determinism_selftest"] = det

        # phase 3: minimise, write replays, verify them in a new interpreter
        reported = []
        exit_code = 0
        for key in sorted(viols, key=lambda k: viols[k][0])[:5]:
            idx, res = viols[key]
            trace, v = res["trace"], res["violation"]
            if "sched_decisions" in res:
                trace = dict(trace, recorded_decisions=res["sched_decisions"])
            m = Minimiser(farm, mod, key, mod.RUN_TIMEOUT)
            mtrace, mv = m.run(trace, v)
            sig = mod.signature(mtrace, mv)
            mtrace = dict(mtrace, violation=mv, signature=sig, minimised_from_ops=len(trace["ops"]),
                          minimiser_executions=m.execs)
            os.makedirs(os.path.join(VERIF, "replays"), exist_ok=True)
            path = os.path.join(VERIF, "replays", "%s-%d.json" % (prop, res.get("seed", 0)))
            with open(path, "w") as f:
                f.write(jdump(mtrace, indent=1))
            ok, out = replay_in_new_interpreter(path)
            entry = {"class": list(key), "signature": sig, "replay": path, "run_index": idx,
                     "ops_before": len(trace["ops"]), "ops_after": len(mtrace["ops"]), "detail": mv.get("detail", "")[:600],
                     "replay_reproduced": ok}
            reported.append(entry)
            if not ok:
                harness_errors.append({"error": "replay did not reproduce in a new interpreter", "replay": path, "out": out[-1500:]})
                continue
            k = known_match(prop, sig, "known")
            if k:
                print("KNOWN-FINDING: property=%s %s" % (prop, k.get("what", sig)), flush=True)
                entry["known"] = True
                continue
            print("VIOLATION property=%s replay=%s" % (prop, path), flush=True)
            print("  oracle=%s op=%s signature=%s" % (mv["oracle"], mv.get("op", ""), sig), flush=True)
            print("  %s" % mv.get("detail", "")[:800], flush=True)
            exit_code = 1
        if harness_errors:
            for h in harness_errors[:5]:
                print("HARNESS-ERROR: %s" % jdump(h)[:1500], flush=True)
            if exit_code == 0:
                exit_code = 2
    finally:
        farm.close()

    wall = time.monotonic() - t0
    if write_evidence:
        cov = {
            "evaluations": n_done,
            "distinct_nontrivial": len(nontrivial_sigs),
            "rule": mod.RULE,
            "samples": samples[:3],
            "distinct_signatures_all": len(sigs),
            "runs_per_hour": int(n_done / t_runs * 3600) if n_done and t_runs > 0 else 0,
            "seeds_per_hour": int(n_done / t_runs * 3600) if n_done and t_runs > 0 else 0,
            "run_phase_wall_s": round(t_runs, 2),
            "simulated_time": mod.SIMULATED_TIME_NOTE,
            "counters": dict(sorted(stats.items())),
            "distinct": {k: len(v) for k, v in sorted(sets.items())},
            "components": mod.COMPONENTS,
            "violations_reported": reported,
            "harness_errors": len(harness_errors),
            "workers": workers,
            "repo": repo_root(),
        }
        fk = {}
        for k, v in stats.items():
            for pre, field in (("fault_fired_", "fired"), ("fault_configured_not_fired_", "configured_not_fired"), ("fault_configured_", "configured")):
                if k.startswith(pre):
                    fk.setdefault(k[len(pre):], {"configured": 0, "fired": 0, "configured_not_fired": 0})[field] = v
                    break
        cov["fault_kinds_injected"] = dict(sorted(fk.items()))
        cov["file_system"] = {
            "seam": "every run and every pristine execution has an empty private directory as cwd, HOME, XDG_* and TMPDIR (removed afterwards); "
                    "opens for writing outside it are recorded through an audit hook",
            "files_left_in_private_directory": sorted(str(x) for x in sets.get("fs_files_left", ()))[:20],
            "writes_outside_private_directory": sorted(str(x) for x in sets.get("fs_outside_writes", ()))[:20],
        }
        cov.update(extra)
        if hasattr(mod, "finish_coverage"):
            mod.finish_coverage(cov, stats, sets)
        ev = {
            "property_id": prop,
            "tier": tier,
            "seed": batch_seed,
            "level": "exploration",
            "coverage": cov,
            "assumptions": mod.ASSUMPTIONS,
            "wall_s": round(wall, 2),
            "violations": sum(1 for r in reported if r.get("replay_reproduced") and not r.get("known")),
        }
        os.makedirs(os.path.join(VERIF, "evidence"), exist_ok=True)
        with open(os.path.join(VERIF, "evidence", "%s.json" % prop), "w") as f:
            f.write(jdump(ev, indent=1))
    print("done property=%s runs=%d distinct_nontrivial=%d violations=%d harness_errors=%d wall=%.1fs exit=%d" % (
        prop, n_done, len(nontrivial_sigs), len(viols), len(harness_errors), wall, exit_code), flush=True)
    return exit_code


def _absorb(res, stats, sets, sigs, nontrivial_sigs, samples, viols):
    merge_stats(stats, res.get("stats"))
    # the file-system seam (farm._enter_sandbox): what the code under simulation left on disk, and where
    if res.get("files_left"):
        merge_stats(stats, {"fs_runs_that_left_files_in_their_private_directory": 1})
        merge_sets(sets, {"fs_files_left": list(res["files_left"])[:5]})
    if res.get("outside_writes"):
        merge_stats(stats, {"fs_runs_that_wrote_outside_their_private_directory": 1})
        merge_sets(sets, {"fs_outside_writes": list(res["outside_writes"])[:5]})
    merge_sets(sets, res.get("sets"))
    sigs.add(res.get("sig"))
    if res.get("nontrivial"):
        nontrivial_sigs.add(res.get("sig"))
    if res.get("trace") is not None and not res.get("violation") and len(samples) < 3:
        samples.append(res["trace"])
    v = res.get("violation")
    if v:
        key = vclass(v)
        if key not in viols or res["index"] < viols[key][0]:
            viols[key] = (res["index"], res)


def determinism_selftest(farm, mod, prop, tier, batch_seed, harness_errors, n=16, cross=False):
    """Same seed twice (different zygotes by construction of the farm's scheduling) => same digest.
    With cross=True additionally in a new interpreter with another PYTHONHASHSEED and 4 workers."""
    def pass_():
        jobs = [{"kind": "run", "index": i, "tier": tier, "seed": derive_seed(batch_seed, prop, i), "batch_seed": batch_seed} for i in range(n)]
        out = {}
        for job, res in farm.run(jobs, mod.RUN_TIMEOUT * 2):
            out[job["index"]] = res.get("digest", res.get("harness_error"))
        return out

    a = pass_()
    b = pass_()
    mismatches = [i for i in range(n) if a.get(i) != b.get(i)]
    rep = {"seeds": n, "passes": 2, "mismatches": len(mismatches), "digest": digest([a.get(i) for i in range(n)])}
    if cross:
        env = dict(os.environ, VERIF_HASHSEED="12345", VERIF_WORKERS="4", VERIF_SEED=str(batch_seed))
        try:
            p = subprocess.run([sys.executable, os.path.join(VERIF, "sim", "main.py"), "--digests", prop, tier, str(n)],
                               capture_output=True, text=True, env=env, timeout=2400)
        except subprocess.TimeoutExpired as e:  # a harness error like any other: the check still finishes and reports
            p = subprocess.CompletedProcess(e.cmd, 124, stdout="", stderr="timed out after %ss" % e.timeout)
        try:
            c = json.loads(p.stdout.strip().splitlines()[-1])
            c = {int(k): v for k, v in c.items()}
            cm = [i for i in range(n) if a.get(i) != c.get(i)]
        except Exception as e:
            cm = list(range(n))
            harness_errors.append({"error": "cross-interpreter digest run failed: %r" % (e,), "out": (p.stdout + p.stderr)[-1500:]})
        rep["cross_interpreter"] = {"hashseed": 12345, "workers": 4, "mismatches": len(cm)}
        mismatches += cm
    if mismatches:
        harness_errors.append({"error": "determinism self-test failed", "indices": mismatches[:10]})
    return rep


def digests_only(prop, tier, n, batch_seed, workers):
    mod = load(prop)
    errs = []
    cfg = dict(mod.TIERS[tier])
    cfg["cold_check"] = False  # (the cold-interpreter cross-check belongs to the main batch, not to the digest run)
    ctx = None
    if hasattr(mod, "prepare"):
        # the reference table is built with all cores; the RUNS are what is repeated with another worker count and hash seed
        prep = farm_mod.Farm(make_handler(mod), int(os.environ.get("VERIF_PREP_WORKERS", "16")))
        try:
            ctx = mod.prepare(prep, batch_seed, tier, cfg, errs)
        finally:
            prep.close()
    farm = farm_mod.Farm(make_handler(mod), workers)
    try:
        if ctx is not None:
            farm.set_context(ctx)
        jobs = [{"kind": "run", "index": i, "tier": tier, "seed": derive_seed(batch_seed, prop, i), "batch_seed": batch_seed} for i in range(n)]
        out = {}
        for job, res in farm.run(jobs, mod.RUN_TIMEOUT * 2):
            out[job["index"]] = res.get("digest", res.get("harness_error"))
    finally:
        farm.close()
    print(json.dumps(out))
    return 0


# ---------------------------------------------------------------------------------------------
# replay
# ---------------------------------------------------------------------------------------------
def replay_in_new_interpreter(path):
    env = dict(os.environ)
    p = subprocess.run([sys.executable, os.path.join(VERIF, "sim", "main.py"), "--replay", path],
                       capture_output=True, text=True, env=env, timeout=900)
    ok = p.returncode == 1 and any(l.startswith("REPRODUCED ") for l in p.stdout.splitlines())
    return ok, p.stdout + p.stderr


def replay(path):
    with open(path) as f:
        trace = json.load(f)
    prop = trace["property"]
    mod = load(prop)
    farm = farm_mod.Farm(make_handler(mod), 1)
    try:
        errs = []
        if hasattr(mod, "prepare_replay"):
            ctx = mod.prepare_replay(farm, trace, errs)
            if ctx is not None:
                farm.set_context(ctx)
        res = farm.one({"kind": "exec", "trace": trace}, mod.RUN_TIMEOUT * 2)
    finally:
        farm.close()
    if "harness_error" in res:
        print("HARNESS-ERROR: %s" % res["harness_error"])
        print(res.get("tb", ""))
        return 2
    v = res.get("violation")
    want = trace.get("violation")
    if v:
        same = (want is None) or (vclass(v) == vclass(want))
        print("%s property=%s oracle=%s op=%s step=%s" % (
            "REPRODUCED" if same else "REPRODUCED-DIFFERENT-CLASS", prop, v["oracle"], v.get("op", ""), v.get("step")))
        print("  " + v.get("detail", "")[:1500])
        print("VIOLATION property=%s replay=%s" % (prop, path))
        return 1
    print("NOT-REPRODUCED property=%s (the recorded history now satisfies every oracle)" % prop)
    return 0
