"""C20 operation catalogue: heap recipes (long-lived caller-owned objects) and op templates.

Every template is a literal call of a public pyrepseq callable with arguments taken from the shared
heap ``H`` — the way a notebook reuses ``df`` and ``kws`` across cells.  Flags:
  rand   the op is randomised: np.random.seed / random.seed(rng_seed) are set immediately before it
  cb     the op takes a user callback; ``cb`` (a FaultyCallable or the plain default) is passed in
  pool   the op creates a process pool (SimPool): carrier for fork_fail and for pool schedules
  io     the op reads a packaged CSV: carrier for io_error
  post   canonicalisation applied to the returned value before comparison (API-level sets are sorted)
"""
import numpy as np
import pandas as pd

HEAP = {}
RANDOPS = {}  # base name -> (fn(H, A), group, flags): templates whose ARGUMENTS are drawn from a seeded generator A


class SiblingRandom(__import__("random").Random):
    """Generator of a random-argument template 'base~n': cluster n // 16, member n % 16.  Every draw advances the cluster's stream;
    for member > 0 about one draw in seven is replaced by a draw from the member's own stream.  The members of one cluster therefore
    build arguments that agree in most parts and differ in a few - the pairs a cache with an incomplete key confuses."""

    def __init__(self, cluster, member):
        R = __import__("random").Random
        self._c = R(cluster)
        self._m = R(1000003 * (member + 1) + cluster)
        self._p = 0.0 if member == 0 else 0.15
        super().__init__(0)

    def random(self):
        a = self._c.random()
        return self._m.random() if self._m.random() < self._p else a

    def getrandbits(self, k):
        a = self._c.getrandbits(k)
        return self._m.getrandbits(k) if self._m.random() < self._p else a


class _Ops(dict):
    """name -> Op.  'base~<n>' names a random-argument template: RANDOPS[base] with A = random.Random(n); it is materialised on
    first use, so that any process (batch, replay, minimiser) can execute it from the name alone."""

    def __missing__(self, name):
        base, sep, sd = name.rpartition("~")
        if sep and base in RANDOPS and sd.isdigit():
            import random as _random

            fn, group, flags = RANDOPS[base]

            def call(H, fn=fn, sd=int(sd)):
                return fn(H, SiblingRandom(sd // 16, sd % 16))

            call.__name__ = name
            call._grid_fn = fn
            o = Op(name, call, group, **flags)
            self[name] = o
            try:
                USES[name] = set(_static_heap_names(fn))
            except NameError:
                pass
            return o
        raise KeyError(name)

    def get(self, name, default=None):
        try:
            return self[name]
        except KeyError:
            return default

    def __contains__(self, name):
        if dict.__contains__(self, name):
            return True
        try:
            self[name]
            return True
        except (KeyError, TypeError):
            return False


OPS = _Ops()


class Op:
    __slots__ = ("name", "fn", "group", "rand", "cb", "pool", "io", "post", "slow", "huge")

    def __init__(self, name, fn, group, rand=False, cb=None, pool=False, io=False, post=None, slow=False, huge=False):
        self.name, self.fn, self.group = name, fn, group
        self.rand, self.cb, self.pool, self.io, self.post, self.slow = rand, cb, pool, io, post, slow or huge
        self.huge = huge  # tens of seconds per execution: thorough tier only


def op(group, **kw):
    def deco(fn):
        name = fn.__name__
        assert name not in OPS, name
        OPS[name] = Op(name, fn, group, **kw)
        return fn

    return deco


def randop(group, **kw):
    def deco(fn):
        assert fn.__name__ not in RANDOPS and fn.__name__ not in OPS, fn.__name__
        RANDOPS[fn.__name__] = (fn, group, kw)
        return fn

    return deco


def _static_heap_names(fn):
    import inspect
    import re

    try:
        return re.findall(r'H\["([A-Za-z0-9_]+)"\]', inspect.getsource(fn))
    except (OSError, TypeError):
        return []


def heap(fn):
    HEAP[fn.__name__] = fn
    return fn


def sorted_list(x):
    return sorted(list(x), key=repr)


def sorted_rows(x):
    a = np.asarray(x)
    if a.ndim != 2:
        return x
    return sorted([list(r) for r in a.tolist()], key=repr)


# =============================================================================================
# heap recipes
# =============================================================================================
@heap
def seqs_list():
    return ["CASSLGQAYEQYF", "CASSLGQAYEQF", "CASSLAQAYEQYF", "CASSPGQAYEQYF", "CASSLGQAYEQYF", "CAWSVGTDTQYF",
            "CAWSVGSDTQYF", "CSARDRGNTIYF", "CASSLGQAYEQY", "CASRLGQAYEQYF"]


@heap
def seqs_list2():
    return ["CASSLGQAYEQYF", "CAWSVGTDTQYF", "CASSIRSSYEQYF", "CASSLGQAYEQYFF", "CSARDRGNTIYF"]


@heap
def seqs_arr():
    return np.array(["CAAA", "CADA", "CAAA", "CDKD", "CAAK", "CAAAK", "CAD", "CDDD"])


@heap
def seqs_series():
    return pd.Series(["CAAA", "CADA", "CAAK", "CDKD", "CAAA", "CAKK"], index=[10, 11, 12, 13, 14, 15], name="cdr3")


@heap
def seqs_eqlen():
    return ["CASSLGQAYEQYF", "CASSLGQAFEQYF", "CASSLAQAYEQYF", "CASSPGQAYEQYF", "CASSLGQAYEQYF", "CASRLGQAYEQYF"]


@heap
def seqs_short():
    return ["AC", "AD", "CC", "ACD", "A", "AC"]


@heap
def counts_list():
    return [5, 0, 3, 1, 1, 7, 2]


@heap
def counts_arr():
    return np.array([12, 5, 3, 3, 1, 1, 1, 0, 2])


@heap
def f_counts():
    return np.array([10, 4, 2, 1])


@heap
def f_counts_single():
    return [7]


@heap
def clone_sizes():
    return np.array([100.0, 50.0, 20.0, 20.0, 5.0, 1.0, 1.0, 1.0, np.nan, 3.0])


@heap
def bins_arr():
    return np.arange(0, 12)


@heap
def weights_arr():
    return np.array([1.0, 2.0, 0.5])


@heap
def ref_set():
    return {"CAAA", "CADA", "CAAK", "CDKD", "CAKK", "CAA"}


@heap
def varpos_list():
    return [1, 3]


@heap
def df_tcr():
    rows = [
        ["TRAV1-1*01", "CAVKASGSRLT", "TRAJ1*01", "TRBV2*01", "CASSDRAQPQHF", "TRBJ1-1*01", "CLAMP", "HLA-A*01", "B2M", 1],
        ["TRAV1-1*01", "CLANGSRLT", "TRAJ1*01", "TRBV2*01", "CASSANDRAF", "TRBJ1-1*01", "CLAMP", "HLA-A*01", "B2M", 1],
        ["TRAV5*01", "CAVKASGSRLT", "TRAJ1*01", "TRBV6-9*01", "CASSDRAQPQHF", "TRBJ1-1*01", "STEAK", "HLA-A*02", "B2M", 13],
        ["TRAV5*01", "CAVKASGSRLT", "TRAJ1*01", "TRBV6-9*01", "CASSDRAQPQHF", "TRBJ1-1*01", "STEAK", "HLA-A*02", "B2M", 2],
        ["TRAV12-1*01", "CAVNGGSQGNLIF", "TRAJ42*01", "TRBV7-2*01", "CASSLGQAYEQYF", "TRBJ2-7*01", "GILGFVFTL", "HLA-A*02", "B2M", 4],
        ["TRAV12-1*01", "CAVNGGSQGNLIF", "TRAJ42*01", "TRBV7-2*01", "CASSLGQAFEQYF", "TRBJ2-7*01", "GILGFVFTL", "HLA-A*02", "B2M", 1],
    ]
    cols = ["TRAV", "CDR3A", "TRAJ", "TRBV", "CDR3B", "TRBJ", "Epitope", "MHCA", "MHCB", "clone_count"]
    return pd.DataFrame(rows, columns=cols, index=[101, 102, 103, 104, 105, 106])


@heap
def df_tcr2():
    rows = [
        ["TRAV1-1*01", "CAVKASGSRLT", "TRAJ1*01", "TRBV2*01", "CASSDRAQPQHF", "TRBJ1-1*01"],
        ["TRAV12-1*01", "CAVNGGSQGNLIF", "TRAJ42*01", "TRBV7-2*01", "CASSLGQAYEQYF", "TRBJ2-7*01"],
        ["TRAV5*01", "CAVRASGSRLT", "TRAJ1*01", "TRBV6-9*01", "CASSDRAQPQF", "TRBJ1-1*01"],
    ]
    return pd.DataFrame(rows, columns=["TRAV", "CDR3A", "TRAJ", "TRBV", "CDR3B", "TRBJ"], index=["a", "b", "c"])


@heap
def df_tcr_alleles01():
    # the *01 alleles of V genes whose other alleles carry a different CDR1 or CDR2 (IMGT): see df_tcr_alleles_alt
    rows = [
        ["TRAV8-4*01", "CAVKASGSRLT", "TRAJ1*01", "TRBV5-5*01", "CASSDRAQPQHF", "TRBJ1-1*01"],
        ["TRAV12-2*01", "CAVKASGSRLT", "TRAJ1*01", "TRBV27*01", "CASSDRAQPQHF", "TRBJ1-1*01"],
        ["TRAV1-1*01", "CAVKASGSRLT", "TRAJ1*01", "TRBV19*01", "CASSDRAQPQHF", "TRBJ1-1*01"],
        ["TRAV5*01", "CLANGSRLT", "TRAJ1*01", "TRBV6-9*01", "CASSANDRAF", "TRBJ1-1*01"],
    ]
    return pd.DataFrame(rows, columns=["TRAV", "CDR3A", "TRAJ", "TRBV", "CDR3B", "TRBJ"])


@heap
def df_tcr_alleles_alt():
    # same clonotypes as df_tcr_alleles01 with alleles *02 / *03: CDR1 or CDR2 differs from the *01 allele in every V gene of the first three rows
    rows = [
        ["TRAV8-4*03", "CAVKASGSRLT", "TRAJ1*01", "TRBV5-5*03", "CASSDRAQPQHF", "TRBJ1-1*01"],
        ["TRAV12-2*03", "CAVKASGSRLT", "TRAJ1*01", "TRBV27*02", "CASSDRAQPQHF", "TRBJ1-1*01"],
        ["TRAV1-1*02", "CAVKASGSRLT", "TRAJ1*01", "TRBV19*02", "CASSDRAQPQHF", "TRBJ1-1*01"],
        ["TRAV5*01", "CLANGSRLT", "TRAJ1*01", "TRBV6-9*01", "CASSANDRAF", "TRBJ1-1*01"],
    ]
    return pd.DataFrame(rows, columns=["TRAV", "CDR3A", "TRAJ", "TRBV", "CDR3B", "TRBJ"])


@heap
def df_tcr_alleles_mixed():
    # several alleles of one V gene in one table, the rarer allele first
    rows = [
        ["TRAV12-2*04", "CAVKASGSRLT", "TRAJ1*01", "TRBV19*03", "CASSDRAQPQHF", "TRBJ1-1*01"],
        ["TRAV12-2*03", "CAVKASGSRLT", "TRAJ1*01", "TRBV19*01", "CASSDRAQPQHF", "TRBJ1-1*01"],
        ["TRAV12-2*01", "CAVKASGSRLT", "TRAJ1*01", "TRBV19*02", "CASSDRAQPQHF", "TRBJ1-1*01"],
        ["TRAV8-4*03", "CAVKASGSRLT", "TRAJ1*01", "TRBV27*02", "CASSDRAQPQHF", "TRBJ1-1*01"],
        ["TRAV8-4*01", "CAVKASGSRLT", "TRAJ1*01", "TRBV27*01", "CASSDRAQPQHF", "TRBJ1-1*01"],
    ]
    return pd.DataFrame(rows, columns=["TRAV", "CDR3A", "TRAJ", "TRBV", "CDR3B", "TRBJ"], index=[21, 22, 23, 24, 25])


@heap
def df_beta():
    return pd.DataFrame({"CDR3B": ["CASSDRAQPQHF", "CASSANDRAF", "CASSDRAQPQHF", "CASSLGQAYEQYF", "CASSLGQAFEQYF"],
                         "TRBV": ["TRBV2*01", "TRBV2*01", "TRBV6-9*01", "TRBV7-2*01", "TRBV7-2*01"],
                         "note": ["x", "y", "z", "x", "y"]}, index=[5, 6, 7, 8, 9])


@heap
def df_raw():
    rows = [
        ["av26.1*1", "CIVRAPGRADMRF", "aj43*1", "bv13*1", "CASSYLPGQGDHYSNQPQHF", "bj1.5*1", "FLKEKGGL", "b8", "b2m", 1],
        ["TCRAV20*01", "CAVPSGAGSYQLTF", "TCRAJ28*01", "TCRBV28S1*01", "CASSLGQSGANVLTF", "TCRBJ2S6*01", "LQPFPQPELPYPQPQ", "HLA-DQA1*05", "HLA-DQB1*02", 2],
        ["unknown", "unknown", "unknown", "TRBV7-2*01", "CASSDWGSQNTLYF", "TRBJ2-4*01", "YMPYFFTLL", "HLA-A*02", "B2M", 3],
        [None, "ASSY", None, None, None, None, None, None, None, 4],
    ]
    cols = ["TRAV", "CDR3A", "TRAJ", "TRBV", "CDR3B", "TRBJ", "Epitope", "MHCA", "MHCB", "clone_count"]
    return pd.DataFrame(rows, columns=cols, index=[3, 2, 1, 0])


@heap
def df_raw_misnamed():
    return pd.DataFrame({"foo": ["bv13*1", "TCRBV28S1*01", "TRBV7-2*01"], "bar": ["CASSYLPGQGDHYSNQPQHF", "CASSLGQSGANVLTF", "CASSDWGSQNTLYF"],
                         "baz": ["bj1.5*1", "TCRBJ2S6*01", "TRBJ2-4*01"], "extra": [1.5, 2.5, np.nan]})


@heap
def dict_colmapper():
    return {"foo": "TRBV", "bar": "CDR3B", "baz": "TRBJ"}


@heap
def df_stats():
    return pd.DataFrame({
        "group": ["g1", "g1", "g1", "g2", "g2", "g2", "g2", "g3", "g3", "g4"],
        "a": ["x", "x", "y", "x", "x", "x", "z", "y", "y", "q"],
        "b": ["p", "p", "p", "q", "q", "r", "r", "p", "p", "p"],
        "n": [1, 2, 3, 4, 5, 6, 7, 8, 9, 10],
    }, index=list(range(20, 30)))


@heap
def df_stats_nan():
    return pd.DataFrame({"a": ["x", None, "x", "y", None, "x"], "b": ["p", "p", None, "q", "p", "p"]}, index=list("abcdef"))


@heap
def df_cluster():
    a = ["CAVKASGSRLT", "CAVKASGSRLT", "CLANGSRLT", "CAVNGGSQGNLIF", "CAVNGGSQGNLIF", "CAVRASGSRLT", "CAVKASGARLT", "CAVNGGSQGNLF"]
    b = ["CASSDRAQPQHF", "CASSDRAQPQHF", "CASSANDRAF", "CASSLGQAYEQYF", "CASSLGQAFEQYF", "CASSDRAQPQF", "CASSDRAQPQHF", "CASSLGQAYEQYF"]
    return pd.DataFrame({"cdr3a": a, "cdr3b": b, "epitope": ["e1", "e1", "e2", "e3", "e3", "e1", "e1", "e3"],
                         "donor": ["d1", "d2", "d1", "d2", "d1", "d2", "d1", "d2"]}, index=list(range(40, 48)))


@heap
def df_vj():
    return pd.DataFrame({"cdr3": ["CASSLGQAYEQYF", "CASSLGQAFEQYF", "CASSLAQAYEQYF", "CASSPGQAYEQYF"],
                         "v": ["TRBV7-2", "TRBV7-2", "TRBV6-9", "TRBV2"], "j": ["TRBJ2-7", "TRBJ2-7", "TRBJ1-1", "TRBJ2-7"]}, index=[7, 8, 9, 10])


@heap
def dict_cbar():
    return {"label": "my distance", "orientation": "horizontal"}


@heap
def dict_linkage():
    return {"method": "complete"}


@heap
def dict_cluster():
    return {"t": 3, "criterion": "distance"}


@heap
def dict_palette():
    return {"l": 0.4, "s": 0.9}


@heap
def dict_tcrdist():
    return {"ntrim": 2, "ctrim": 1}


@heap
def dict_stepkw():
    return {"color": "red", "where": "post"}


@heap
def dict_logokw():
    return {"color_scheme": "hydrophobicity"}


@heap
def dict_mergekw():
    return {"how": "inner"}


@heap
def dict_optkw():
    return {"bounds": [1.2, 5.0]}


@heap
def dict_leiden():
    return {"objective_function": "modularity"}


@heap
def list_meta():
    return ["epitope", "donor"]


@heap
def dict_meta():
    return {"epitope": "Epitope", "donor": "Donor"}


@heap
def list_on():
    return ["a", "b"]


@heap
def list_by():
    return ["group"]


@heap
def suffixes_list():
    return ["L", "R", "Z"]


@heap
def dfs_list():
    d1 = pd.DataFrame({"key": ["k1", "k2", "k3"], "v": [1, 2, 3]})
    d2 = pd.DataFrame({"key": ["k2", "k3", "k4"], "v": [20, 30, 40]})
    d3 = pd.DataFrame({"key": ["k1", "k3", "k5"], "w": [0.1, 0.3, 0.5]})
    return [d1, d2, d3]


@heap
def dfs_indexed():
    d1 = pd.DataFrame({"v": [1, 2, 3]}, index=["k1", "k2", "k3"])
    d2 = pd.DataFrame({"w": [20, 30, 40]}, index=["k2", "k3", "k4"])
    return [d1, d2]


@heap
def triplets_arr():
    return np.array([[0, 1, 1], [1, 0, 1], [1, 2, 1], [2, 1, 1], [3, 4, 2], [4, 3, 2], [5, 6, 1], [6, 5, 1], [6, 7, 1], [7, 6, 1], [0, 2, 2], [2, 0, 2]])


@heap
def triplets_list():
    return [(0, 1, 1), (1, 0, 1), (1, 2, 1), (2, 1, 1), (3, 4, 2), (4, 3, 2), (5, 6, 1), (6, 5, 1)]


@heap
def nodes_list():
    return ["n%d" % i for i in range(9)]


@heap
def nodes_series():
    return pd.Series(["s%d" % i for i in range(9)], index=list(range(50, 59)))


@heap
def xy_points():
    t = np.arange(60, dtype=float)
    return np.stack([np.sin(t / 3.0) * 5 + t / 10.0, np.cos(t / 4.0) * 3 + (t % 7)], axis=0)


@heap
def xy_discrete():
    return np.array([[1, 1, 2, 2, 2, 3, 3, 1, 2, 3], [1, 1, 2, 2, 1, 3, 3, 1, 2, 1]])


@heap
def mixed_values():
    return ["CASSF", "casf", None, float("nan"), 12, b"CASF", "CASSXF", "", "CAW"]


@heap
def set_a():
    return ["a", "b", "c", "c", "d"]


@heap
def set_b():
    return pd.Series(["c", "d", "e", None, "c"], index=[9, 8, 7, 6, 5])


@heap
def metric_lev():
    from pyrepseq.metric import Levenshtein

    return Levenshtein()


@heap
def metric_wlev():
    from pyrepseq.metric import WeightedLevenshtein

    return WeightedLevenshtein(insertion_weight=2, deletion_weight=2, substitution_weight=1)


@heap
def metric_beta():
    from pyrepseq.metric.tcr_metric import BetaCdr3Levenshtein

    return BetaCdr3Levenshtein()


@heap
def metric_cdr3():
    from pyrepseq.metric.tcr_metric import Cdr3Levenshtein

    return Cdr3Levenshtein(alpha_weight=2)


@heap
def metric_cdrall():
    from pyrepseq.metric.tcr_metric import CdrLevenshtein

    return CdrLevenshtein()


@heap
def metric_alphacdr():
    from pyrepseq.metric.tcr_metric import AlphaCdrLevenshtein

    return AlphaCdrLevenshtein(cdr1_weight=2)


@heap
def db_ref_list():
    return ["CAAA", "CDDD", "CADA", "CAAK", "CAAA"]


@heap
def db_ref_list2():
    return ["CAAA", "CDDD", "CADA", "CAAK", "CAAA"]


@heap
def symdel_db(H):
    import pyrepseq as prs

    return prs.SymdelDB(H["db_ref_list"], 2)


@heap
def lookup_db(H):
    import pyrepseq as prs

    return prs.LookupDB(H["db_ref_list2"])


DEPENDS = {"symdel_db": ["db_ref_list"], "lookup_db": ["db_ref_list2"]}


# =============================================================================================
# callbacks (plain defaults; a FaultyCallable wraps them in callback_raise runs)
# =============================================================================================
def cb_lev2(a, b):
    from rapidfuzz.distance.Levenshtein import distance

    return 2 * distance(a, b)


def cb_plain_lev(a, b, **kw):
    from rapidfuzz.distance.Levenshtein import distance

    return distance(a, b)


def cb_hamming_nb(x, **kw):
    import pyrepseq as prs

    return prs.hamming_neighbors(x, alphabet="ACDK")


def cb_log(x):
    return np.log10(np.asarray(x) + 1.0)


def cb_colors(labels, **kw):
    return [[0.1, 0.2, 0.3] if str(l) < "e2" else [0.7, 0.1, 0.1] for l in labels]


# =============================================================================================
# nn
# =============================================================================================
import pyrepseq as prs  # noqa: E402
import pyrepseq.plotting as pp  # noqa: E402
from pyrepseq.metric import tcr_metric as tm  # noqa: E402


@op("kdtree", post=sorted_list)
def kdtree_default(H):
    return prs.kdtree(H["seqs_list"], max_edits=1)


@op("kdtree", post=sorted_list)
def kdtree_k2_arr(H):
    return prs.kdtree(H["seqs_arr"], max_edits=2)


@op("kdtree", post=sorted_list)
def kdtree_hamming(H):
    return prs.kdtree(H["seqs_arr"], max_edits=1, custom_distance="hamming")


@op("kdtree", post=sorted_list, cb=cb_lev2)
def kdtree_custom(H, cb=cb_lev2):
    return prs.kdtree(H["seqs_list"], max_edits=2, custom_distance=cb, max_custom_distance=2)


@op("kdtree")
def kdtree_maxret(H):
    r = prs.kdtree(H["seqs_list"], max_edits=2, max_returns=2)
    return sorted((i, d) for i, _, d in r)  # which of several equidistant neighbours is kept is not part of the claim


@op("kdtree", post=sorted_list, pool=True)
def kdtree_ncpu3(H):
    return prs.kdtree(H["seqs_list"], max_edits=2, n_cpu=3)


@op("kdtree", post=sorted_list, pool=True)
def kdtree_ncpu3_series(H):
    return prs.kdtree(H["seqs_series"], max_edits=1, n_cpu=3, compression=4)


@op("kdtree", post=sorted_list, pool=True, cb=cb_lev2)
def kdtree_ncpu2_custom(H, cb=cb_lev2):
    return prs.kdtree(H["seqs_arr"], max_edits=2, n_cpu=2, custom_distance=cb)


@op("kdtree", post=sorted_list)
def kdtree_compression(H):
    return prs.kdtree(H["seqs_list"], max_edits=2, compression=4)


@op("kdtree")
def kdtree_coo(H):
    return prs.kdtree(H["seqs_arr"], max_edits=1, output_type="coo_matrix")


@op("kdtree")
def kdtree_ndarray(H):
    return prs.kdtree(H["seqs_series"], max_edits=1, output_type="ndarray")


@op("kdtree")
def kdtree_bad_edits(H):
    return prs.kdtree(H["seqs_list"], max_edits=0)


@op("kdtree")
def kdtree_bad_seqs(H):
    return prs.kdtree(H["mixed_values"], max_edits=1)


@op("hash_based", post=sorted_list)
def hash_based_default(H):
    return prs.hash_based(H["seqs_arr"], max_edits=1)


@op("hash_based", post=sorted_list)
def hash_based_hamming_progress(H):
    return prs.hash_based(H["seqs_series"], max_edits=1, custom_distance="hamming", progress=True)


@op("hash_based", post=sorted_list, cb=cb_lev2)
def hash_based_custom(H, cb=cb_lev2):
    return prs.hash_based(H["seqs_arr"], max_edits=1, custom_distance=cb, max_custom_distance=2)


@op("symdel", post=sorted_list)
def symdel_default(H):
    return prs.symdel(H["seqs_list"], max_edits=2)


@op("symdel", post=sorted_list)
def symdel_seqs2(H):
    return prs.symdel(H["seqs_list"], max_edits=1, seqs2=H["seqs_list2"], progress=True)


@op("symdel", post=sorted_list)
def symdel_hamming_arr(H):
    return prs.symdel(H["seqs_arr"], max_edits=1, custom_distance="hamming")


@op("symdel", post=sorted_list, cb=cb_lev2)
def symdel_custom(H, cb=cb_lev2):
    return prs.symdel(H["seqs_list"], max_edits=2, custom_distance=cb, max_custom_distance=2)


@op("symdel")
def symdel_ndarray_out(H):
    return prs.symdel(H["seqs_arr"], max_edits=1, output_type="ndarray")


@op("symdel")
def symdel_bad_output(H):
    return prs.symdel(H["seqs_list"], output_type="dense")


@op("symdel", post=sorted_list)
def nearest_neighbor_default(H):
    return prs.nearest_neighbor(H["seqs_arr"], max_edits=1)


@op("symdel", post=sorted_list)
def nearest_neighbor_seqs2(H):
    return prs.nearest_neighbor(H["seqs_list2"], max_edits=2, seqs2=H["seqs_list"])


@op("db", post=sorted_list)
def symdeldb_lookup(H):
    return H["symdel_db"].lookup(["CAAF", "CCCC", "CAAA"])


@op("db", post=sorted_list)
def symdeldb_lookup_hamming(H):
    return H["symdel_db"].lookup(H["seqs_arr"], custom_distance="hamming")


@op("db", post=sorted_list, cb=cb_lev2)
def symdeldb_lookup_custom(H, cb=cb_lev2):
    return H["symdel_db"].lookup(H["seqs_arr"], custom_distance=cb, max_custom_distance=2)


@op("db", post=sorted_list)
def lookupdb_lookup(H):
    return H["lookup_db"].lookup(["CAAF", "CCCC", "CAAA"], max_edits=1)


@op("db", post=sorted_list)
def lookupdb_lookup_hamming(H):
    return H["lookup_db"].lookup(H["seqs_arr"], max_edits=1, custom_distance="hamming", progress=True)


@op("db")
def symdeldb_build(H):
    db = prs.SymdelDB(H["seqs_short"], 1)
    return sorted((k, tuple(v)) for k, v in db.variant_dict.items())


@op("tcrdist_nn", io=True)
def nn_tcrdist_default(H):
    return prs.nearest_neighbor_tcrdist(H["df_beta"], max_edits=2)


@op("tcrdist_nn", io=True)
def nn_tcrdist_kwargs(H):
    return prs.nearest_neighbor_tcrdist(H["df_beta"], chain="beta", max_edits=1, tcrdist_kwargs=H["dict_tcrdist"])


@op("tcrdist_nn", io=True)
def nn_tcrdist_both(H):
    return prs.nearest_neighbor_tcrdist(H["df_tcr"], chain="both", edit_on_trimmed=False)


# =============================================================================================
# stats
# =============================================================================================
@op("pc")
def pc_list(H):
    return prs.pc(H["seqs_list"])


@op("pc")
def pc_two(H):
    return prs.pc(H["seqs_list"], H["seqs_list2"])


@op("pc")
def pc_series(H):
    return prs.pc(H["seqs_series"])


@op("pc")
def pc_table(H):
    return prs.pc(H["df_stats_nan"])


@op("pc")
def pc_table_two(H):
    return prs.pc(H["df_stats"][["a", "b"]], H["df_stats_nan"])


@op("pc")
def pc_tuple(H):
    return prs.pc((H["seqs_eqlen"], H["seqs_eqlen"]))


@op("pc")
def pc_n_arr(H):
    return prs.pc_n(H["counts_arr"])


@op("pc")
def pc_n_list(H):
    return prs.pc_n(H["counts_list"])


@op("pc")
def pc_joint_one(H):
    return prs.pc_joint(H["df_stats"], H["list_on"])


@op("pc")
def pc_joint_two(H):
    return prs.pc_joint(H["df_stats"], H["list_on"], H["df_stats_nan"], gap_token="|")


@op("pc")
def pc_joint_self(H):
    return prs.pc_joint(H["df_stats"], H["list_on"], H["df_stats"], gap_token="|")


@op("pc")
def pc_grouped_cross_list(H):
    return prs.pc_grouped_cross(H["df_stats"], "group", H["list_on"])


@op("pc")
def pc_grouped_cross_single(H):
    return prs.pc_grouped_cross(H["df_stats"], H["list_by"], "a")


@op("pc")
def pc_conditional_basic(H):
    return prs.pc_conditional(H["df_stats"], H["list_by"], "a")


@op("pc")
def pc_conditional_weights(H):
    return prs.pc_conditional(H["df_stats"], "group", H["list_on"], group_weights=H["weights_arr"])


@op("pc")
def varpc_n_arr(H):
    return [prs.varpc_n(H["counts_arr"]), prs.stdpc_n(H["counts_arr"])]


@op("pc")
def stdpc_list(H):
    return prs.stdpc(H["seqs_list"])


@op("pc")
def stdpc_joint_tbl(H):
    return prs.stdpc_joint(H["df_stats"], H["list_on"])


@op("chao")
def chao1_arr(H):
    return [prs.chao1(H["f_counts"]), prs.var_chao1(H["f_counts"])]


@op("chao")
def chao1_single(H):
    return [prs.chao1(H["f_counts_single"]), prs.var_chao1(H["f_counts_single"])]


@op("chao")
def chao2_arr(H):
    return prs.chao2(H["f_counts"], 5)


@op("chao")
def var_chao2_arr(H):
    return prs.var_chao2(H["f_counts"], 5)


@op("sets")
def jaccard_lists(H):
    return prs.jaccard_index(H["set_a"], H["set_b"])


@op("sets")
def overlap_mixed(H):
    return [prs.overlap(H["set_a"], H["set_b"]), prs.overlap_coefficient(H["set_b"], H["set_a"])]


@op("sets")
def overlap_lists(H):
    return [prs.overlap(sorted(H["ref_set"]), H["seqs_arr"]), prs.overlap_coefficient(H["seqs_list"], H["seqs_list2"]),
            prs.overlap_coefficient(H["set_a"], []), prs.jaccard_index(H["ref_set"], H["seqs_arr"])]


@op("sets")
def overlap_sets(H):
    return [prs.overlap(H["ref_set"], H["seqs_arr"]), prs.overlap_coefficient(H["ref_set"], [])]


@op("subsample", rand=True)
def subsample_arr(H):
    return prs.subsample(H["counts_arr"], 9)


@op("subsample", rand=True)
def subsample_list(H):
    return prs.subsample(H["counts_list"], 4.0)


@op("subsample", rand=True)
def subsample_too_many(H):
    return prs.subsample(H["counts_list"], 400)


@op("powerlaw", rand=True)
def powerlaw_sample_basic(H):
    return prs.powerlaw_sample(size=50, xmin=2, alpha=2.5)


@op("powerlaw", rand=True)
def powerlaw_sample_default(H):
    return prs.powerlaw_sample()


@op("powerlaw")
def powerlaw_mle_simple(H):
    return [prs.powerlaw_mle_alpha(H["counts_arr"], cmin=1, method="simple"),
            prs.powerlaw_mle_alpha(H["counts_list"], cmin=2, method="continuitycorrection")]


@op("powerlaw")
def powerlaw_mle_exact(H):
    return prs.powerlaw_mle_alpha(H["counts_arr"], cmin=1.0)


@op("powerlaw")
def powerlaw_mle_exact_kw(H):
    return prs.powerlaw_mle_alpha(H["counts_arr"], cmin=1.0, method="exact", **H["dict_optkw"])


@op("powerlaw")
def powerlaw_mle_badmethod(H):
    return prs.powerlaw_mle_alpha(H["counts_arr"], method="mle")


# =============================================================================================
# distance
# =============================================================================================
@op("pdist")
def pdist_default(H):
    return prs.pdist(H["seqs_list"])


@op("pdist", cb=cb_plain_lev)
def pdist_callable(H, cb=cb_plain_lev):
    return prs.pdist(H["seqs_series"], metric=cb, dtype=float, score_cutoff=None)


@op("pdist")
def cdist_default(H):
    return prs.cdist(H["seqs_list"], H["seqs_list2"])


@op("pdist", cb=cb_plain_lev)
def cdist_callable(H, cb=cb_plain_lev):
    return prs.cdist(H["seqs_arr"], H["seqs_short"], metric=cb, dtype=np.int64)


@op("downsample", rand=True)
def downsample_list(H):
    return prs.downsample(H["seqs_list"], 4)


@op("downsample", rand=True)
def downsample_table(H):
    return prs.downsample(H["df_tcr"], 3)


@op("downsample")
def downsample_noop(H):
    return [prs.downsample(H["seqs_list"], None), prs.downsample(H["seqs_arr"], 100), prs.downsample(None, 3)]


@op("pcDelta")
def pcDelta_list(H):
    return prs.pcDelta(H["seqs_list"])


@op("pcDelta")
def pcDelta_two(H):
    return prs.pcDelta(H["seqs_list"], H["seqs_list2"], bins=H["bins_arr"], normalize=False)


@op("pcDelta", rand=True)
def pcDelta_maxseqs(H):
    return prs.pcDelta(H["seqs_list"], maxseqs=6, pseudocount=0.5)


@op("pcDelta")
def pcDelta_table(H):
    return prs.pcDelta(H["df_tcr"])


@op("pcDelta")
def pcDelta_table_metric(H):
    return prs.pcDelta(H["df_tcr"], H["df_tcr2"], metric=H["metric_cdr3"], bins=H["bins_arr"])


@op("pcDelta")
def pcDelta_bins0(H):
    return prs.pcDelta(H["seqs_list"], H["seqs_list2"], bins=0)


@op("pcDelta")
def pcDelta_tuple(H):
    return prs.pcDelta((H["seqs_eqlen"], H["seqs_eqlen"]), bins=H["bins_arr"])


@op("pcDelta")
def pcDelta_metric_lev(H):
    return prs.pcDelta(H["seqs_series"], metric=H["metric_wlev"], bins=5)


@op("pcDelta")
def pcDelta_grouped_bins(H):
    return prs.pcDelta_grouped(H["df_cluster"], "epitope", "cdr3b", bins=H["bins_arr"])


@op("pcDelta")
def pcDelta_grouped_bins0(H):
    return prs.pcDelta_grouped(H["df_cluster"], "donor", "cdr3a", bins=0)


@op("pcDelta")
def pcDelta_grouped_cross_sq(H):
    return prs.pcDelta_grouped_cross(H["df_cluster"], "donor", "cdr3b", bins=0)


@op("pcDelta")
def pcDelta_grouped_cross_cond(H):
    return prs.pcDelta_grouped_cross(H["df_cluster"], "epitope", "cdr3b", condensed=True, bins=H["bins_arr"])


@op("background", io=True)
def load_background(H):
    return prs.load_pcDelta_background()


@op("background", io=True)
def load_background_nobins(H):
    return prs.load_pcDelta_background(return_bins=False)


@op("neighbors")
def lev_neighbors(H):
    return sorted(set(prs.levenshtein_neighbors("CAD", alphabet="ACD")))


@op("neighbors")
def ham_neighbors_varpos(H):
    return list(prs.hamming_neighbors("CADK", alphabet="AC", variable_positions=H["varpos_list"]))


@op("neighbors", cb=cb_hamming_nb)
def next_nearest(H, cb=cb_hamming_nb):
    return sorted(prs.next_nearest_neighbors("CAD", cb, maxdistance=2))


@op("neighbors", post=sorted_list)
def find_pairs_default(H):
    return prs.find_neighbor_pairs(H["seqs_arr"])


@op("neighbors", post=sorted_list, cb=cb_hamming_nb)
def find_pairs_index_cb(H, cb=cb_hamming_nb):
    return prs.find_neighbor_pairs_index(list(dict.fromkeys(H["seqs_arr"].tolist())), neighborhood=cb)


@op("neighbors")
def neighbor_numbers_ref(H):
    return prs.calculate_neighbor_numbers(H["seqs_arr"], reference=H["ref_set"])


@op("neighbors", cb=cb_hamming_nb)
def neighbor_numbers_cb(H, cb=cb_hamming_nb):
    return prs.calculate_neighbor_numbers(H["seqs_series"], neighborhood=cb)


@op("neighbors")
def isdist1_ref(H):
    return [prs.isdist1("CAAF", H["ref_set"]), prs.isdist1("WWWW", H["ref_set"]), prs.nndist_hamming("CADD", H["ref_set"]),
            prs.nndist_hamming("CKKD", H["ref_set"], maxdist=2), prs.nndist_hamming("WWWW", H["ref_set"], maxdist=3)]


@op("neighbors")
def nndist_bad(H):
    return prs.nndist_hamming("CAAA", H["ref_set"], maxdist=5)


@op("hclust")
def hclust_default(H):
    return prs.hierarchical_clustering(H["seqs_list"])


@op("hclust")
def hclust_caller_dicts(H):
    return prs.hierarchical_clustering(H["seqs_list"], linkage_kws=H["dict_linkage"], cluster_kws=H["dict_cluster"])


@op("hclust")
def hclust_table(H):
    return prs.hierarchical_clustering(H["df_tcr"], metric=H["metric_beta"])


@op("hclust")
def hclust_tuple(H):
    return prs.hierarchical_clustering((H["seqs_eqlen"], H["seqs_eqlen"]), cluster_kws=H["dict_cluster"])


@op("hclust")
def default_metric(H):
    return [prs.get_default_metric_for_input_data(x).name for x in (H["df_tcr"], H["df_beta"], H["seqs_list"], H["df_stats"])]


# =============================================================================================
# entropy
# =============================================================================================
@op("entropy")
def renyi_single(H):
    return prs.renyi2_entropy(H["df_stats"], "a")


@op("entropy")
def renyi_joint_cond(H):
    return [prs.renyi2_entropy(H["df_stats"], H["list_on"], base=None), prs.renyi2_entropy(H["df_stats"], "a", by=H["list_by"]),
            prs.renyi2_entropy(H["df_stats"], H["list_on"], by="group", base=np.e, group_weights=H["weights_arr"])]


@op("entropy")
def renyi_bad_base(H):
    return prs.renyi2_entropy(H["df_stats"], "a", base=-1)


@op("entropy")
def stdrenyi(H):
    return [prs.stdrenyi2_entropy(H["df_stats"], "a"), prs.stdrenyi2_entropy(H["df_stats"], H["list_on"], base=None, gap_token="-")]


# =============================================================================================
# clustering
# =============================================================================================
@op("graph")
def graph_cc(H):
    return prs.graph_clustering(H["triplets_arr"], H["nodes_list"])


@op("graph")
def graph_cc_list(H):
    return prs.graph_clustering(H["triplets_list"], H["nodes_series"], clustering="cc")


@op("graph", rand=True)
def graph_fastgreedy(H):
    return prs.graph_clustering(H["triplets_arr"], H["nodes_list"], clustering="fastgreedy")


@op("graph", rand=True)
def graph_multilevel(H):
    return prs.graph_clustering(H["triplets_arr"], H["nodes_list"], clustering="multilevel")


@op("graph", rand=True)
def graph_leiden(H):
    return prs.graph_clustering(H["triplets_arr"], H["nodes_list"], clustering="leiden", **H["dict_leiden"])


@op("graph")
def graph_dbscan(H):
    return prs.graph_clustering(H["triplets_arr"], H["nodes_list"], clustering="DBSCAN")


@op("graph")
def graph_dbscan_list(H):
    return prs.graph_clustering(H["triplets_list"], H["nodes_list"], clustering="DBSCAN")


# =============================================================================================
# io / util
# =============================================================================================
@op("standardize")
def standardize_default(H):
    return prs.standardize_dataframe(H["df_raw"], suppress_warnings=True)


@op("standardize")
def standardize_mapper(H):
    return prs.standardize_dataframe(H["df_raw_misnamed"], col_mapper=H["dict_colmapper"], suppress_warnings=True)


@op("standardize")
def standardize_off(H):
    return prs.standardize_dataframe(H["df_raw_misnamed"], col_mapper=H["dict_colmapper"], standardize=False)


@op("standardize")
def standardize_allele_strict(H):
    return prs.standardize_dataframe(H["df_raw"], tcr_precision="allele", mhc_precision="allele",
                                     strict_cdr3_standardization=True, suppress_warnings=True)


@op("standardize")
def standardize_df_old(H):
    return prs.standardize_dataframe(df_old=H["df_tcr"], tcr_enforce_functional=False, suppress_warnings=True)


@op("standardize")
def standardize_none(H):
    return prs.standardize_dataframe(None)


@op("standardize")
def standardize_both(H):
    return prs.standardize_dataframe(H["df_raw"], df_old=H["df_tcr"])


@op("valid")
def isvalid_values(H):
    return [[prs.isvalidaa(x) for x in H["mixed_values"][:7]], [prs.isvalidcdr3(x) for x in H["mixed_values"][:7]],
            prs.isvalidaa(H["seqs_short"]), prs.isvalidcdr3("CAW")]


@op("valid")
def isvalidcdr3_empty(H):
    return prs.isvalidcdr3("")


@op("multimerge")
def multimerge_col(H):
    return prs.multimerge(H["dfs_list"][:2], "key")


@op("multimerge")
def multimerge_suffix(H):
    return prs.multimerge(H["dfs_list"], "key", suffixes=H["suffixes_list"])


@op("multimerge")
def multimerge_index_inner(H):
    return prs.multimerge(H["dfs_indexed"], "index", **H["dict_mergekw"])


@op("multimerge")
def multimerge_index_suffix(H):
    return prs.multimerge(H["dfs_indexed"], "index", suffixes=H["suffixes_list"], how="left")


@op("util")
def regex_consensus(H):
    return [prs.seqs_to_regex(H["seqs_eqlen"], align=False), prs.seqs_to_consensus(H["seqs_eqlen"], align=False),
            prs.seqs_to_consensus(pd.Series(H["seqs_eqlen"]), align=False)]


@op("util")
def align_missing(H):
    return prs.align_seqs(H["seqs_list"])


@op("util")
def regex_align_missing(H):
    return prs.seqs_to_regex(H["seqs_list"])


@op("util")
def ensure_numpy_all(H):
    return [prs.ensure_numpy(H["seqs_series"]), prs.ensure_numpy(H["seqs_list"]), prs.ensure_numpy(H["seqs_arr"]) is H["seqs_arr"],
            prs.convert_tuple_to_dataframe_if_necessary((H["seqs_eqlen"], H["seqs_eqlen"])),
            prs.convert_tuple_to_dataframe_if_necessary(H["seqs_list"]) is H["seqs_list"]]


# =============================================================================================
# metric
# =============================================================================================
@op("metric")
def metric_lev_cdist(H):
    return [H["metric_lev"].calc_cdist_matrix(H["seqs_list"], H["seqs_list2"]), H["metric_lev"].calc_pdist_vector(H["seqs_arr"])]


@op("metric")
def metric_wlev_both(H):
    return [H["metric_wlev"].calc_cdist_matrix(H["seqs_series"], H["seqs_short"]), H["metric_wlev"].calc_pdist_vector(H["seqs_list"])]


@op("metric")
def metric_beta_tbl(H):
    return [H["metric_beta"].calc_cdist_matrix(H["df_tcr"], H["df_beta"]), H["metric_beta"].calc_pdist_vector(H["df_beta"])]


@op("metric")
def metric_cdr3_tbl(H):
    return [H["metric_cdr3"].calc_cdist_matrix(H["df_tcr"], H["df_tcr2"]), H["metric_cdr3"].calc_pdist_vector(H["df_tcr"])]


@op("metric")
def metric_cdrall_tbl(H):
    return [H["metric_cdrall"].calc_cdist_matrix(H["df_tcr"], H["df_tcr2"]), H["metric_cdrall"].calc_pdist_vector(H["df_tcr2"])]


@op("metric")
def metric_alphacdr_tbl(H):
    return H["metric_alphacdr"].calc_cdist_matrix(H["df_tcr2"], H["df_tcr"])


@op("metric")
def metric_fresh_instances(H):
    return [tm.AlphaCdr3Levenshtein(insertion_weight=2).calc_pdist_vector(H["df_tcr"]),
            tm.BetaCdrLevenshtein(cdr2_weight=3).calc_cdist_matrix(H["df_tcr"], H["df_tcr2"]),
            tm.tcr_metric.is_in_standard_format(H["df_tcr"]), tm.tcr_metric.is_in_standard_format(H["df_stats"]),
            tm.tcr_metric.is_in_standard_format(H["seqs_list"])]


@op("metric")
def metric_bad_input(H):
    return H["metric_beta"].calc_cdist_matrix(H["df_stats"], H["df_tcr"])


@op("metric")
def metric_missing_column(H):
    return H["metric_cdr3"].calc_pdist_vector(H["df_beta"])


# =============================================================================================
# plotting
# =============================================================================================
@op("rankfreq")
def rankfrequency_default(H):
    return pp.rankfrequency(H["clone_sizes"])


@op("rankfreq", cb=cb_log)
def rankfrequency_opts(H, cb=cb_log):
    import matplotlib.pyplot as plt

    fig, ax = plt.subplots()
    return pp.rankfrequency(H["counts_arr"], ax=ax, normalize_x=False, normalize_y=True, transform_x=cb, log_x=False,
                            scalex=2.0, **H["dict_stepkw"])


@op("density")
def density_scatter_cont(H):
    return pp.density_scatter(H["xy_points"][0], H["xy_points"][1], bins=5)


@op("density", cb=cb_log)
def density_scatter_disc(H, cb=cb_log):
    import matplotlib.pyplot as plt

    fig, ax = plt.subplots()
    return [pp.density_scatter(H["xy_discrete"][0], H["xy_discrete"][1], ax=ax, discrete=True, cbar=True, s=5),
            pp.density_scatter(H["xy_points"][0] + 10, H["xy_points"][1] + 10, ax=ax, trans=cb, sort=False, bins=4)]


@op("logos", slow=True)
def seqlogos_eq(H):
    return pp.seqlogos(H["seqs_eqlen"])


@op("logos", slow=True)
def seqlogos_kw(H):
    import matplotlib.pyplot as plt

    fig, ax = plt.subplots()
    return pp.seqlogos(pd.Series(H["seqs_eqlen"]), ax=ax, **H["dict_logokw"])


@op("logos")
def seqlogos_unequal(H):
    return pp.seqlogos(H["seqs_list"])


@op("logos", slow=True)
def seqlogos_vj_tbl(H):
    return pp.seqlogos_vj(H["df_vj"], "cdr3", "v", "j")


@op("labelaxes")
def label_axes_fig(H):
    import matplotlib.pyplot as plt

    fig, axes = plt.subplots(ncols=3)
    pp.label_axes(fig)
    pp.label_axes(axes[:2], labels=["x", "y"], labelstyle="(%s)", xy=(0.1, 0.9), color="blue")
    return fig


@op("colors", rand=True)
def colors_hls_default(H):
    return pp.labels_to_colors_hls(H["df_cluster"]["epitope"])


@op("colors", rand=True)
def colors_hls_kws(H):
    return pp.labels_to_colors_hls(H["nodes_list"][:4] + H["nodes_list"][:2], palette_kws=H["dict_palette"], min_count=2)


@op("colors", rand=True)
def colors_tableau(H):
    return pp.labels_to_colors_tableau(H["df_cluster"]["donor"], min_count=1)


@op("clustermap", rand=True, slow=True)
def clustermap_default(H):
    return pp.similarity_clustermap(H["df_cluster"])


@op("clustermap", rand=True, slow=True)
def clustermap_norm(H):
    import matplotlib as mpl

    return pp.similarity_clustermap(H["df_cluster"], norm=mpl.colors.Normalize(0, 6))


@op("clustermap", rand=True, slow=True)
def clustermap_single_chain(H):
    return pp.similarity_clustermap(H["df_cluster"], alpha_column=None, bounds=np.arange(0, 5, 1))


@op("clustermap", rand=True, slow=True)
def clustermap_caller_dicts(H):
    return pp.similarity_clustermap(H["df_cluster"], linkage_kws=H["dict_linkage"], cluster_kws=H["dict_cluster"],
                                    cbar_kws=H["dict_cbar"])


@op("clustermap", rand=True, slow=True)
def clustermap_norm_caller_cbar(H):
    import matplotlib as mpl

    return pp.similarity_clustermap(H["df_cluster"], norm=mpl.colors.Normalize(0, 8), cbar_kws=H["dict_cbar"])


@op("clustermap", rand=True, slow=True, cb=cb_colors)
def clustermap_meta_list(H, cb=cb_colors):
    return pp.similarity_clustermap(H["df_cluster"], meta_columns=H["list_meta"],
                                    meta_to_colors=[pp.labels_to_colors_tableau, cb, pp.labels_to_colors_hls])


@op("clustermap", rand=True, slow=True)
def clustermap_meta_dict(H):
    return pp.similarity_clustermap(H["df_cluster"], beta_column=None, meta_columns=H["dict_meta"], figsize=(3, 3))


@op("clustermap", slow=True)
def clustermap_split_direct(H):
    from scipy.spatial.distance import squareform

    d = squareform(prs.pdist(H["seqs_eqlen"]).astype(float))
    lower = pd.DataFrame(d)
    upper = pd.DataFrame(d * 2)
    return pp.clustermap_split(lower, upper, cbar_kws=H["dict_cbar"], figsize=(3, 3))


# =============================================================================================
# sibling templates: same shapes / lengths / keys as an earlier template but different content, so
# that state keyed by a partial key (length, shape, id, first element ...) meets a colliding victim
# =============================================================================================
@heap
def seqs_list_b():
    return ["CASSLGQAYEQYF", "CASSLGQGYEQF", "CASRLAQAYEQYF", "CASSPGQAYEQYF", "CATSLGQAYEQYF", "CAWSVGTDTQYF",
            "CAWSIGSDTQYF", "CSARDRGNTIYF", "CASSLGQAYEQF", "CASRLGQAYEQYF"]


@heap
def seqs_arr_b():
    return np.array(["CAAA", "CADD", "CAAA", "CDKD", "CKAK", "CAAAK", "CAD", "CDDK"])


@heap
def counts_arr_b():
    return np.array([2, 5, 3, 9, 1, 1, 4, 0, 2])


@heap
def df_stats_b():
    return pd.DataFrame({
        "group": ["g1", "g1", "g2", "g2", "g2", "g2", "g3", "g3", "g3", "g3"],
        "a": ["x", "y", "y", "x", "z", "x", "z", "y", "y", "y"],
        "b": ["p", "q", "p", "q", "q", "r", "r", "p", "r", "p"],
        "n": [1, 2, 3, 4, 5, 6, 7, 8, 9, 10],
    }, index=list(range(20, 30)))


@op("kdtree", post=sorted_list)
def kdtree_default_b(H):
    return prs.kdtree(H["seqs_list_b"], max_edits=1)


@op("kdtree", post=sorted_list, pool=True)
def kdtree_ncpu3_b(H):
    return prs.kdtree(H["seqs_list_b"], max_edits=2, n_cpu=3)


@op("kdtree", post=sorted_list)
def kdtree_k2_arr_b(H):
    return prs.kdtree(H["seqs_arr_b"], max_edits=2)


@op("symdel", post=sorted_list)
def symdel_default_b(H):
    return prs.symdel(H["seqs_list_b"], max_edits=2)


@op("symdel", post=sorted_list)
def symdel_seqs2_b(H):
    return prs.symdel(H["seqs_list_b"], max_edits=1, seqs2=H["seqs_list2"])


@op("hash_based", post=sorted_list)
def hash_based_default_b(H):
    return prs.hash_based(H["seqs_arr_b"], max_edits=1)


@op("db", post=sorted_list)
def symdeldb_lookup_b(H):
    return H["symdel_db"].lookup(["CAAF", "CDDD", "CAKA"])


@op("db", post=sorted_list)
def lookupdb_lookup_b(H):
    return H["lookup_db"].lookup(["CAAF", "CDDD", "CAKA"], max_edits=1)


@op("pdist")
def pdist_default_b(H):
    return prs.pdist(H["seqs_list_b"])


@op("pdist")
def cdist_default_b(H):
    return prs.cdist(H["seqs_list_b"], H["seqs_list2"])


@op("pc")
def pc_list_b(H):
    return prs.pc(H["seqs_list_b"])


@op("pc")
def pc_n_arr_b(H):
    return prs.pc_n(H["counts_arr_b"])


@op("pc")
def pc_joint_one_b(H):
    return prs.pc_joint(H["df_stats_b"], H["list_on"])


@op("pc")
def pc_conditional_b(H):
    return prs.pc_conditional(H["df_stats_b"], H["list_by"], "a")


@op("pc")
def varpc_n_arr_b(H):
    return [prs.varpc_n(H["counts_arr_b"]), prs.stdpc_n(H["counts_arr_b"])]


@op("entropy")
def renyi_single_b(H):
    return prs.renyi2_entropy(H["df_stats_b"], "a")


@op("pcDelta")
def pcDelta_list_b(H):
    return prs.pcDelta(H["seqs_list_b"])


@op("pcDelta")
def pcDelta_two_b(H):
    return prs.pcDelta(H["seqs_list_b"], H["seqs_list2"], bins=H["bins_arr"], normalize=False)


@op("hclust")
def hclust_default_b(H):
    return prs.hierarchical_clustering(H["seqs_list_b"])


@op("metric")
def metric_lev_cdist_b(H):
    return [H["metric_lev"].calc_cdist_matrix(H["seqs_list_b"], H["seqs_list2"]), H["metric_lev"].calc_pdist_vector(H["seqs_arr_b"])]


@op("subsample", rand=True)
def subsample_arr_b(H):
    return prs.subsample(H["counts_arr_b"], 9)


@op("powerlaw")
def powerlaw_mle_exact_b(H):
    return prs.powerlaw_mle_alpha(H["counts_arr_b"], cmin=1.0)


@op("neighbors", post=sorted_list)
def find_pairs_default_b(H):
    return prs.find_neighbor_pairs(H["seqs_arr_b"])


@op("neighbors")
def neighbor_numbers_ref_b(H):
    return prs.calculate_neighbor_numbers(H["seqs_arr_b"], reference=H["ref_set"])


@op("util")
def regex_consensus_b(H):
    return [prs.seqs_to_regex(H["seqs_eqlen"][::-1][:4], align=False), prs.seqs_to_consensus(H["seqs_eqlen"][:3], align=False)]


@op("colors", rand=True)
def colors_hls_default_b(H):
    return pp.labels_to_colors_hls(H["df_cluster"]["donor"])


@op("clustermap", rand=True, slow=True)
def clustermap_default_b(H):
    return pp.similarity_clustermap(H["df_cluster"].iloc[::-1].reset_index(drop=True))


# =============================================================================================
# numerical edge cases: results that are nan / inf through floating-point operations (0/0, log 0,
# overflow).  They are the victims of anything that leaves NumPy's error state, warning filters or
# similar process-wide settings changed; plus calls that raise in the middle of a loop.
# =============================================================================================
@heap
def df_unique():
    return pd.DataFrame({"a": ["u1", "u2", "u3", "u4"], "b": ["p", "q", "r", "s"], "group": ["g1", "g1", "g2", "g2"]}, index=[3, 1, 4, 2])


@heap
def seqs_with_none():
    return ["CASSF", "CASSLF", None, "CAS"]


@heap
def ones_list():
    return [1, 1, 1]


def cb_nan_metric(a, b, **kw):
    return np.float64("nan") if len(a) != len(b) else np.float64(1.0)


@op("edge")
def edge_pc_single(H):
    return [prs.pc(["CASSF"]), prs.pc_n([1]), prs.pc_n(np.array([1]))]


@op("edge")
def edge_pcDelta_single(H):
    return prs.pcDelta(["CASSF"], bins=H["bins_arr"])


@op("edge")
def edge_renyi_unique(H):
    return [prs.renyi2_entropy(H["df_unique"], "a"), prs.renyi2_entropy(H["df_unique"], ["a", "b"], base=None),
            prs.stdrenyi2_entropy(H["df_unique"], "a")]


@op("edge")
def edge_powerlaw_mle_ones(H):
    return [prs.powerlaw_mle_alpha(H["ones_list"], method="simple"), prs.powerlaw_mle_alpha(np.array([2, 3]), cmin=5, method="simple")]


@op("edge")
def edge_varpc_small(H):
    return [prs.varpc_n(np.array([1, 1, 1])), prs.stdpc_n(np.array([2, 1])), prs.stdpc(["a", "b", "c"])]


@op("edge", rand=True)
def edge_powerlaw_overflow(H):
    return prs.powerlaw_sample(size=400, xmin=50, alpha=1.02)


@op("edge")
def edge_pc_conditional_unique(H):
    return [prs.pc_conditional(H["df_unique"], "group", "a"), prs.pc_grouped_cross(H["df_unique"], "group", "a")]


@op("edge")
def edge_pcDelta_grouped_single(H):
    return prs.pcDelta_grouped(H["df_unique"], "a", "b", bins=H["bins_arr"])


@op("pdist")
def pdist_with_none(H):
    return prs.pdist(H["seqs_with_none"])


@op("pdist")
def cdist_with_none(H):
    return prs.cdist(H["seqs_list2"], H["seqs_with_none"])


@op("pdist", cb=cb_nan_metric)
def pdist_nan_metric(H, cb=cb_nan_metric):
    return prs.pdist(H["seqs_short"], metric=cb)


@op("pdist", cb=cb_nan_metric)
def cdist_nan_metric_float(H, cb=cb_nan_metric):
    return prs.cdist(H["seqs_short"], H["seqs_arr"], metric=cb, dtype=float)


@op("metric")
def metric_lev_with_none(H):
    return H["metric_lev"].calc_pdist_vector(H["seqs_with_none"])


@op("kdtree")
def kdtree_with_none(H):
    return prs.kdtree(H["seqs_with_none"])


# =============================================================================================
# remaining branches (argument validation, rarely taken paths)
# =============================================================================================
@heap
def df_alpha_only():
    return pd.DataFrame({"CDR3A": ["CAVKASGSRLT", "CLANGSRLT", "CAVKASGSRLT"], "TRAV": ["TRAV1-1*01", "TRAV1-1*01", "TRAV5*01"]}, index=[2, 4, 6])


@heap
def ref_set_far():
    return {"CAAA", "CDDD"}


@op("neighbors")
def nndist_far(H):
    return [prs.nndist_hamming("CAAA", H["ref_set_far"]), prs.nndist_hamming("CAKK", H["ref_set_far"]),
            prs.nndist_hamming("CKKK", H["ref_set_far"]), prs.nndist_hamming("KKKK", H["ref_set_far"]),
            prs.nndist_hamming("CKKK", H["ref_set_far"], maxdist=3), prs.nndist_hamming("CAKK", H["ref_set_far"], maxdist=1)]


@op("entropy")
def stdrenyi_bad_base(H):
    return prs.stdrenyi2_entropy(H["df_stats"], "a", base=0)


@op("validation")
def check_input_not_iterable(H):
    return prs.symdel(5)


@op("validation")
def check_input_max_returns(H):
    return prs.kdtree(H["seqs_list"], max_returns=0)


@op("validation")
def check_input_ncpu(H):
    return prs.kdtree(H["seqs_list"], n_cpu=0)


@op("validation")
def check_input_custom_nonzero(H):
    return prs.hash_based(H["seqs_list"], custom_distance=lambda a, b: 1)


@op("validation")
def check_input_custom_fails(H):
    return prs.symdel(H["seqs_list"], custom_distance=lambda a: 0)


@op("validation")
def check_input_maxcust(H):
    return prs.kdtree(H["seqs_list"], custom_distance="hamming", max_custom_distance=-1)


@op("validation")
def check_input_seqs2_bad(H):
    return prs.symdel(H["seqs_list"], seqs2=H["mixed_values"])


@op("validation")
def check_input_seqs2_notiter(H):
    return prs.nearest_neighbor(H["seqs_list"], seqs2=7)


@op("chao")
def chao_zero_f2(H):
    c = np.array([4, 0, 2])
    return [prs.chao1(c), prs.var_chao1(c), prs.chao2(c, 3), prs.chao2(H["f_counts_single"], 3), prs.var_chao2(c, 3)]


@op("sets")
def jaccard_series(H):
    return [prs.jaccard_index(H["set_b"], H["set_b"]), prs.jaccard_index(H["set_b"], pd.Series(["c", None, "x"]))]


@op("pc")
def pc_conditional_tiny(H):
    return prs.pc_conditional(H["df_unique"], ["a"], "b")


@op("powerlaw")
def powerlaw_mle_fit_fails(H):
    return prs.powerlaw_mle_alpha(H["counts_arr"], cmin=1.0, method="exact", options={"maxiter": 1})


@op("util")
def consensus_with_gaps(H):
    return [prs.seqs_to_consensus(["CA-SF", "C--SF", "C--SF", "CAWSF"], align=False), prs.seqs_to_regex(["CA-SF", "C--SF", "CAWSF"], align=False)]


@op("util")
def align_debug_missing(H):
    return prs.align_seqs(H["seqs_list2"], debug=True)


@op("legend")
def legend_handler_offset(H):
    import matplotlib.pyplot as plt

    fig, ax = plt.subplots()
    (l1,) = ax.plot([0, 1], [0, 1], "o", color="C0")
    (l2,) = ax.plot([0, 1], [1, 0], "s", color="C1")
    (l3,) = ax.plot([0, 1], [0.5, 0.5], "-", color="C2")
    leg = ax.legend([(l1, l2), (l3, l1)], ["pair", "line"], handler_map={tuple: pp.HandlerTupleOffset()})
    leg2_handler = pp.HandlerTupleOffset(horizontal=False)
    fig.canvas.draw()
    return [fig, [t.get_text() for t in leg.get_texts()], leg2_handler.horizontal]


@op("clustermap", slow=True)
def clustermap_split_annot(H):
    from scipy.spatial.distance import squareform

    d = squareform(prs.pdist(H["seqs_eqlen"]).astype(float))
    return pp.clustermap_split(pd.DataFrame(d), pd.DataFrame(d + 1), annot=True, cbar_pos=None, figsize=(3, 3),
                               xticklabels=list("abcdef"), yticklabels=list("uvwxyz"))


@op("clustermap", slow=True)
def clustermap_split_annot_array(H):
    from scipy.spatial.distance import squareform

    d = squareform(prs.pdist(H["seqs_eqlen"]).astype(float))
    return pp.clustermap_split(pd.DataFrame(d), pd.DataFrame(d * 3), annot=np.round(d), figsize=(3, 3), row_cluster=False)


@op("clustermap", slow=True)
def clustermap_split_annot_badshape(H):
    from scipy.spatial.distance import squareform

    d = squareform(prs.pdist(H["seqs_eqlen"]).astype(float))
    return pp.clustermap_split(pd.DataFrame(d), pd.DataFrame(d), annot=np.zeros((2, 2)), figsize=(3, 3))


@op("hclust")
def default_metric_alpha(H):
    return [prs.get_default_metric_for_input_data(H["df_alpha_only"]).name, prs.pcDelta(H["df_alpha_only"], bins=H["bins_arr"]),
            prs.hierarchical_clustering(H["df_alpha_only"])]


# =============================================================================================
# the caller modifies a value it was handed back (its own object from then on).  Legal, and it must not
# affect any later call: a function that hands out a cached / shared object turns these into polluters
# =============================================================================================
@op("background", io=True)
def own_background_modified(H):
    back, bins = prs.load_pcDelta_background()
    back.iloc[:, :] = 0.0
    bins[:] = 0
    back2 = prs.load_pcDelta_background(return_bins=False)
    back2.drop(back2.index[:3], inplace=True)
    return None


@op("kdtree")
def own_search_results_modified(H):
    r = prs.kdtree(H["seqs_list"], max_edits=1)
    r.clear()
    r2 = prs.symdel(H["seqs_list"], max_edits=2)
    r2.append((99, 99, 99))
    r3 = prs.hash_based(H["seqs_arr"], max_edits=1, output_type="ndarray")
    r3[:] = 5
    return None


@op("db")
def own_lookup_results_modified(H):
    r = H["symdel_db"].lookup(["CAAF", "CCCC", "CAAA"])
    r.reverse()
    r.append((7, 7, 7))
    r2 = H["lookup_db"].lookup(["CAAF", "CCCC", "CAAA"], max_edits=1)
    del r2[:]
    return None


@op("pdist")
def own_pdist_modified(H):
    d = prs.pdist(H["seqs_list"])
    d[:] = 7
    c = prs.cdist(H["seqs_list"], H["seqs_list2"])
    c[:] = 9
    return None


@op("hclust")
def own_hclust_modified(H):
    linkage, cluster = prs.hierarchical_clustering(H["seqs_list"])
    linkage[:] = 0
    cluster[:] = 0
    m = prs.get_default_metric_for_input_data(H["seqs_list"])
    m.name = "renamed by the caller"
    return None


@op("metric")
def own_metric_results_modified(H):
    a = H["metric_lev"].calc_cdist_matrix(H["seqs_list"], H["seqs_list2"])
    a[:] = 0
    b = H["metric_beta"].calc_pdist_vector(H["df_beta"])
    b[:] = 0
    return None


@op("pcDelta")
def own_pcDelta_modified(H):
    a = prs.pcDelta(H["seqs_list"])
    a[:] = -1.0
    g = prs.pcDelta_grouped(H["df_cluster"], "epitope", "cdr3b", bins=H["bins_arr"])
    g.iloc[:, :] = -1.0
    return None


@op("standardize")
def own_standardized_modified(H):
    out = prs.standardize_dataframe(H["df_raw"], suppress_warnings=True)
    out.iloc[:, 0] = "changed"
    out["extra"] = 1
    return None


@op("neighbors")
def own_neighbor_sets_modified(H):
    s = prs.next_nearest_neighbors("CAD", cb_hamming_nb, maxdistance=2)
    s.clear()
    p = prs.find_neighbor_pairs(H["seqs_arr"])
    p.clear()
    n = prs.calculate_neighbor_numbers(H["seqs_arr"], reference=H["ref_set"])
    n[:] = 0
    return None


@op("colors", rand=True)
def own_colors_modified(H):
    c = pp.labels_to_colors_hls(H["df_cluster"]["epitope"])
    c.clear()
    t = pp.labels_to_colors_tableau(H["df_cluster"]["donor"])
    t.reverse()
    return None


@op("subsample", rand=True)
def own_subsample_modified(H):
    idx, cnt = prs.subsample(H["counts_arr"], 9)
    idx[:] = 0
    cnt[:] = 0
    d = prs.downsample(H["seqs_arr"], 3)
    d[:] = "X"
    return None


# =============================================================================================
# inputs larger than internal palettes / cycles / default bin ranges
# =============================================================================================
@heap
def many_labels():
    return ["L%02d" % (i % 27) for i in range(40)]


@op("colors", rand=True)
def colors_tableau_many(H):
    return pp.labels_to_colors_tableau(H["many_labels"])


@op("colors", rand=True)
def colors_tableau_many_mincount(H):
    return pp.labels_to_colors_tableau(pd.Series(H["many_labels"]), min_count=2)


@op("colors", rand=True)
def colors_hls_many(H):
    return pp.labels_to_colors_hls(H["many_labels"])


@op("pcDelta")
def pcDelta_long_strings(H):
    a = ["C" + "ASSLGQAYEQYF" * 3, "C" + "AWSVGTDTQYF" * 3, "CASSF", "C" + "ASRLGQAYEQYF" * 3]
    return [prs.pcDelta(a), prs.pdist(a), prs.pdist(["A" * 300, "C" * 300, "A" * 299])]


# =============================================================================================
# larger inputs for the randomised functions; caller-owned list of colour mappers
# =============================================================================================
@heap
def counts_big():
    return np.array([400, 250, 0, 120, 90, 60, 30, 30, 10, 5, 3, 1, 1])


@heap
def seqs_many():
    base = "CASSLGQAYEQYF"
    out = []
    for i in range(150):
        j, k = i % len(base), (i * 7) % 20
        out.append(base[:j] + "ACDEFGHIKLMNPQRSTVWY"[k] + base[j + 1:])
    return out


@heap
def list_mappers():
    return [pp.labels_to_colors_tableau, cb_colors, pp.labels_to_colors_hls]


@op("subsample", rand=True)
def subsample_big(H):
    return prs.subsample(H["counts_big"], 500)


@op("downsample", rand=True)
def downsample_many(H):
    return [prs.downsample(H["seqs_many"], 40), prs.downsample(pd.Series(H["seqs_many"]), 25)]


@op("powerlaw", rand=True)
def powerlaw_sample_large(H):
    return prs.powerlaw_sample(size=6000, xmin=1, alpha=2.2)


@op("pcDelta", rand=True)
def pcDelta_many_maxseqs(H):
    return prs.pcDelta(H["seqs_many"], maxseqs=60, bins=H["bins_arr"])


@op("pcDelta")
def pcDelta_many(H):
    return prs.pcDelta(H["seqs_many"], bins=H["bins_arr"])


@op("kdtree", post=sorted_list)
def kdtree_many(H):
    return prs.kdtree(H["seqs_many"], max_edits=1)


@op("kdtree", post=sorted_list, pool=True)
def kdtree_many_ncpu4(H):
    return prs.kdtree(H["seqs_many"], max_edits=1, n_cpu=4, compression=2)


@op("symdel", post=sorted_list)
def symdel_many(H):
    return prs.symdel(H["seqs_many"], max_edits=1)


@op("clustermap", rand=True, slow=True)
def clustermap_heap_mappers(H):
    return pp.similarity_clustermap(H["df_cluster"], meta_columns=H["list_meta"], meta_to_colors=H["list_mappers"])


# =============================================================================================
# calls that fail LATE (after argument validation has passed and work has started)
# =============================================================================================
@heap
def seqs_bad_letter():
    return ["CASSLGQAYEQYF", "CASSLGQAYEQF", "CASSXGQAYEQYF", "CASSLG*AYEQYF", "casslgqayeqyf"]


@op("kdtree")
def kdtree_bad_letter(H):
    return prs.kdtree(H["seqs_bad_letter"], max_edits=1)


@op("kdtree")
def kdtree_bad_letter_hamming(H):
    return prs.kdtree(H["seqs_bad_letter"], max_edits=2, custom_distance="hamming")


@op("kdtree", pool=True)
def kdtree_bad_letter_ncpu2(H):
    return prs.kdtree(H["seqs_bad_letter"] + H["seqs_list"], max_edits=1, n_cpu=2, compression=3)


@op("kdtree", post=sorted_list, cb=cb_lev2)
def kdtree_hamming_then_default(H, cb=cb_lev2):
    return [sorted(prs.kdtree(H["seqs_list"], max_edits=2, custom_distance="hamming")), sorted(prs.kdtree(H["seqs_list"], max_edits=2)),
            sorted(prs.kdtree(H["seqs_list"], max_edits=2, custom_distance=cb, max_custom_distance=4))]


@op("symdel", post=sorted_list)
def symdel_bad_letter(H):
    return prs.symdel(H["seqs_bad_letter"], max_edits=1)


@op("hash_based", post=sorted_list)
def hash_based_bad_letter(H):
    return prs.hash_based(H["seqs_bad_letter"], max_edits=1)


@op("pcDelta")
def pcDelta_bad_bins(H):
    return prs.pcDelta(H["seqs_list"], bins=[3, 2, 1])


@op("hclust")
def hclust_bad_kws(H):
    return prs.hierarchical_clustering(H["seqs_list"], cluster_kws={"t": 2, "criterion": "no-such-criterion"})


@op("clustermap", rand=True, slow=True)
def clustermap_bad_meta(H):
    return pp.similarity_clustermap(H["df_cluster"], meta_columns=["no_such_column"])


@op("standardize")
def standardize_bad_species(H):
    return prs.standardize_dataframe(H["df_raw"], species="NoSuchSpecies", suppress_warnings=True)


@op("graph")
def graph_bad_method(H):
    return prs.graph_clustering(H["triplets_arr"], H["nodes_list"], clustering="no_such_method")


# =============================================================================================
# container variants: the same call with a set / frozenset / tuple / object array / read-only array /
# named Series with a non-default index / dict view in place of the list
# =============================================================================================
@heap
def seqs_set():
    return {"CAAA", "CADA", "CAAK", "CDKD", "CAKK", "CDDD"}


@heap
def seqs_tuple():
    return ("CAAA", "CADA", "CAAA", "CDKD", "CAAK", "CAAAK")


@heap
def seqs_objarr():
    return np.array(["CAAA", "CADA", "CAAA", "CDKD", "CAAK", "CAAAK"], dtype=object)


@heap
def seqs_readonly():
    a = np.array(["CAAA", "CADA", "CAAA", "CDKD", "CAAK", "CAAAK"])
    a.flags.writeable = False
    return a


@heap
def counts_readonly():
    a = np.array([12, 5, 3, 3, 1, 1, 1, 0, 2])
    a.flags.writeable = False
    return a


@heap
def counts_series():
    return pd.Series([12, 5, 3, 3, 1, 1, 1, 0, 2], index=list("abcdefghi"), name="clone_count")


@heap
def counts_uint8():
    return np.array([12, 5, 3, 3, 1, 1, 1, 0, 2], dtype=np.uint8)


@heap
def seqs_named_series():
    s = pd.Series(["CAAA", "CADA", "CAAK", "CDKD", "CAAA", "CAKK"], index=pd.Index([5, 3, 9, 1, 7, 2], name="cell"), name="junction")
    s.attrs["source"] = "unit"
    return s


@heap
def df_categorical():
    df = pd.DataFrame({"a": pd.Categorical(["x", "y", "x", "z", "y", "x"], categories=["z", "y", "x", "unused"]),
                       "b": ["p", "q", "p", "q", None, "p"], "group": ["g1", "g1", "g2", "g2", "g2", "g1"]})
    df.columns.name = "feature"
    df.attrs["note"] = "keep"
    return df


@op("neighbors", post=sorted_list)
def find_pairs_set(H):
    return prs.find_neighbor_pairs(H["seqs_set"])


@op("neighbors", post=sorted_list)
def find_pairs_index_set(H):
    return [sorted(prs.find_neighbor_pairs(H["seqs_tuple"])), len(prs.find_neighbor_pairs_index(H["seqs_set"])),
            sorted(prs.find_neighbor_pairs_index(list(dict.fromkeys(H["seqs_tuple"]))))]


@op("neighbors")
def neighbor_numbers_containers(H):
    return [sorted(prs.calculate_neighbor_numbers(H["seqs_set"]).tolist()), prs.calculate_neighbor_numbers(H["seqs_tuple"], reference=H["seqs_set"]),
            prs.calculate_neighbor_numbers(H["seqs_objarr"], reference=frozenset(H["seqs_set"])),
            prs.isdist1("CAAF", H["seqs_tuple"]), prs.nndist_hamming("CADD", H["seqs_set"])]


@op("kdtree", post=sorted_list)
def kdtree_containers(H):
    return [sorted(prs.kdtree(H["seqs_tuple"], max_edits=1)), sorted(prs.kdtree(H["seqs_objarr"], max_edits=1)),
            sorted(prs.kdtree(H["seqs_readonly"], max_edits=1)), sorted(prs.kdtree(H["seqs_named_series"], max_edits=1))]


@op("symdel", post=sorted_list)
def symdel_containers(H):
    return [sorted(prs.symdel(H["seqs_tuple"], max_edits=1)), sorted(prs.symdel(H["seqs_readonly"], max_edits=1)),
            sorted(prs.symdel(H["seqs_objarr"], max_edits=1, seqs2=H["seqs_tuple"])),
            sorted(prs.hash_based(H["seqs_readonly"], max_edits=1)), sorted(prs.hash_based(H["seqs_tuple"], max_edits=1))]


@op("db", post=sorted_list)
def db_lookup_containers(H):
    return [sorted(H["symdel_db"].lookup(H["seqs_tuple"])), sorted(H["symdel_db"].lookup(H["seqs_readonly"])),
            sorted(H["lookup_db"].lookup(H["seqs_tuple"])), sorted(H["lookup_db"].lookup(H["seqs_named_series"].to_numpy()))]


@op("pc")
def pc_containers(H):
    return [prs.pc(H["seqs_tuple"][:3] + H["seqs_tuple"][3:]), prs.pc(H["seqs_objarr"]), prs.pc(H["seqs_readonly"], H["seqs_named_series"]),
            prs.pc(H["seqs_named_series"]), prs.pc_n(H["counts_readonly"]), prs.pc_n(H["counts_series"]), prs.pc_n(H["counts_uint8"].astype(int)),
            prs.stdpc(H["seqs_readonly"]), prs.varpc_n(H["counts_readonly"]), prs.stdpc_n(H["counts_series"])]


@op("pc")
def pc_categorical(H):
    return [prs.pc(H["df_categorical"]["a"]), prs.pc(H["df_categorical"][["a", "b"]]), prs.pc_joint(H["df_categorical"], ["a", "group"]),
            prs.pc_conditional(H["df_categorical"], "group", "a"), prs.renyi2_entropy(H["df_categorical"], "a"),
            prs.stdpc_joint(H["df_categorical"], ["a", "group"])]


@op("subsample", rand=True)
def subsample_containers(H):
    return [prs.subsample(H["counts_readonly"], 6), prs.subsample(H["counts_series"], 6), prs.subsample(H["counts_uint8"], 6),
            prs.subsample(tuple(H["counts_list"]), 3)]


@op("downsample", rand=True)
def downsample_containers(H):
    return [prs.downsample(H["seqs_tuple"], 3), prs.downsample(H["seqs_readonly"], 3), prs.downsample(H["seqs_named_series"], 3),
            prs.downsample(H["seqs_objarr"], 6), prs.downsample(H["df_categorical"], 2)]


@op("pdist")
def pdist_containers(H):
    return [prs.pdist(H["seqs_tuple"]), prs.pdist(H["seqs_set"] - {"CAKK"}).shape, prs.cdist(H["seqs_readonly"], H["seqs_named_series"]),
            prs.pdist(iter(H["seqs_tuple"])), prs.cdist(H["seqs_objarr"], H["seqs_tuple"])]


@op("pcDelta")
def pcDelta_containers(H):
    return [prs.pcDelta(H["seqs_tuple"][:3] + H["seqs_tuple"][3:], bins=H["bins_arr"]), prs.pcDelta(H["seqs_readonly"], bins=H["bins_arr"]),
            prs.pcDelta(H["seqs_named_series"], H["seqs_objarr"], bins=H["bins_arr"]), prs.pcDelta(H["seqs_objarr"], bins=tuple(range(6)))]


@op("metric")
def metric_containers(H):
    return [H["metric_lev"].calc_pdist_vector(H["seqs_tuple"]), H["metric_lev"].calc_cdist_matrix(H["seqs_readonly"], H["seqs_named_series"]),
            H["metric_wlev"].calc_pdist_vector(H["seqs_objarr"])]


@op("hclust")
def hclust_containers(H):
    return [prs.hierarchical_clustering(H["seqs_tuple"][:3] + H["seqs_tuple"][3:]), prs.hierarchical_clustering(H["seqs_readonly"]),
            prs.hierarchical_clustering(H["seqs_named_series"], cluster_kws=H["dict_cluster"])]


@op("chao")
def chao_containers(H):
    return [prs.chao1(H["counts_readonly"]), prs.var_chao1(H["counts_series"].to_numpy()), prs.chao2(tuple(H["counts_list"]), 4),
            prs.chao1(H["counts_uint8"])]


@op("sets")
def sets_containers(H):
    return [prs.jaccard_index(H["seqs_set"], H["seqs_tuple"]), prs.jaccard_index(H["seqs_named_series"], H["seqs_set"]),
            prs.overlap(H["seqs_tuple"], H["seqs_readonly"]), prs.overlap_coefficient(H["seqs_named_series"], H["seqs_objarr"])]


@op("rankfreq")
def rankfrequency_containers(H):
    return [pp.rankfrequency(H["counts_readonly"]), pp.rankfrequency(H["counts_series"], normalize_x=False),
            pp.rankfrequency(H["counts_list"], log_y=False), pp.rankfrequency(H["counts_uint8"], normalize_y=True)]


@op("graph")
def graph_containers(H):
    ro = H["triplets_arr"].copy()
    ro.flags.writeable = False
    return [prs.graph_clustering(ro, tuple(H["nodes_list"])), prs.graph_clustering(ro, np.array(H["nodes_list"]), clustering="DBSCAN")]


@op("util")
def util_containers(H):
    return [prs.seqs_to_regex(tuple(H["seqs_eqlen"]), align=False), prs.seqs_to_consensus(np.array(H["seqs_eqlen"]), align=False),
            prs.ensure_numpy(H["seqs_tuple"]), prs.ensure_numpy(H["seqs_named_series"]), prs.ensure_numpy(H["seqs_readonly"]) is H["seqs_readonly"]]


@op("valid")
def isvalid_containers(H):
    return [prs.isvalidaa(H["seqs_tuple"]), prs.isvalidaa(H["seqs_set"]), prs.isvalidcdr3(H["seqs_tuple"]),
            list(H["seqs_named_series"].map(prs.isvalidcdr3)), list(map(prs.isvalidaa, H["mixed_values"][:6]))]


# =============================================================================================
# calls that raise in the MIDDLE of the work, for every module (anything set up before the failure and torn
# down after it is left behind)
# =============================================================================================
@op("entropy")
def renyi_missing_column(H):
    return prs.renyi2_entropy(H["df_stats"], "no_such_column")


@op("entropy")
def renyi_missing_joint_column(H):
    return prs.renyi2_entropy(H["df_stats"], ["a", "no_such_column"])


@op("entropy")
def renyi_bad_weights(H):
    return prs.renyi2_entropy(H["df_stats"], "a", by="group", group_weights=[1.0, 2.0])


@op("entropy")
def renyi_unexpected_kw(H):
    return prs.renyi2_entropy(H["df_stats"], "a", by="group", no_such_option=1)


@op("entropy")
def renyi_missing_by(H):
    return prs.renyi2_entropy(H["df_stats"], "a", by="no_such_group")


@op("entropy")
def stdrenyi_missing_column(H):
    return prs.stdrenyi2_entropy(H["df_stats"], ["a", "nope"])


@op("pc")
def pc_conditional_bad_weights(H):
    return prs.pc_conditional(H["df_stats"], "group", "a", group_weights=np.array([1.0, 2.0]))


@op("pc")
def pc_joint_missing_column(H):
    return prs.pc_joint(H["df_stats"], ["a", "nope"])


@op("pc")
def pc_grouped_cross_missing(H):
    return prs.pc_grouped_cross(H["df_stats"], "group", ["a", "nope"])


@op("pc")
def pc_unhashable(H):
    return prs.pc([["a"], ["b"], ["a", "c"]])


@op("pcDelta")
def pcDelta_grouped_missing(H):
    return prs.pcDelta_grouped(H["df_cluster"], "epitope", "no_such_column", bins=H["bins_arr"])


@op("pcDelta")
def pcDelta_cross_missing(H):
    return prs.pcDelta_grouped_cross(H["df_cluster"], "donor", "no_such_column")


@op("pcDelta")
def pcDelta_numbers(H):
    return prs.pcDelta([1, 2, 3, 4])


@op("chao")
def chao_empty(H):
    return prs.chao1([])


@op("subsample", rand=True)
def subsample_negative(H):
    return prs.subsample(H["counts_list"], -3)


@op("subsample", rand=True)
def subsample_negative_counts(H):
    return prs.subsample([3, -1, 2], 2)


@op("powerlaw")
def powerlaw_mle_strings(H):
    return prs.powerlaw_mle_alpha(["a", "b"], method="simple")


@op("powerlaw", rand=True)
def powerlaw_sample_bad_size(H):
    return prs.powerlaw_sample(size=-5)


@op("hclust")
def hclust_single(H):
    return prs.hierarchical_clustering(["CASSF"])


@op("hclust")
def hclust_bad_metric(H):
    return prs.hierarchical_clustering(H["seqs_list"], metric="levenshtein")


@op("graph")
def graph_short_nodes(H):
    return prs.graph_clustering(H["triplets_arr"], H["nodes_list"][:3])


@op("multimerge")
def multimerge_missing_key(H):
    return prs.multimerge(H["dfs_list"], "no_such_key", suffixes=H["suffixes_list"])


@op("standardize")
def standardize_not_a_table(H):
    return prs.standardize_dataframe(H["seqs_list"])


@op("density")
def density_mismatch(H):
    return pp.density_scatter(H["xy_points"][0], H["xy_points"][1][:10])


@op("rankfreq")
def rankfrequency_strings(H):
    return pp.rankfrequency(H["seqs_list"])


@op("logos")
def seqlogos_empty(H):
    return pp.seqlogos([])


@op("colors", rand=True)
def colors_bad_palette_kw(H):
    return pp.labels_to_colors_hls(H["many_labels"], palette_kws={"no_such_kw": 1})


@op("pdist", cb=cb_plain_lev)
def pdist_bad_kwargs(H, cb=cb_plain_lev):
    return prs.pdist(H["seqs_list"], metric=lambda a, b: cb(a, b) if a != b else [][0])


@op("metric")
def metric_table_with_missing(H):
    df = H["df_tcr"].copy()
    df.loc[103, "CDR3B"] = None
    return H["metric_beta"].calc_pdist_vector(df)


@op("neighbors")
def neighbors_bad_callable(H):
    return prs.find_neighbor_pairs(H["seqs_arr"], neighborhood=lambda x: 1 / 0)


@op("db")
def lookup_non_strings(H):
    return H["symdel_db"].lookup([1, 2, 3])


@op("db")
def lookupdb_non_strings(H):
    return H["lookup_db"].lookup(["CAAA", None])


@heap
def df_cluster15():
    fams = ["CASSLGQAYEQYF", "CAWSVGTDTQYF", "CSARDRGNTIYF", "CASSPRDSGNTLYF", "CAISESGYEQYF"]
    rows = []
    for f in fams:
        rows += [f, f[:5] + "A" + f[6:], f[:7] + "S" + f[8:]]
    return pd.DataFrame({"cdr3b": rows, "cdr3a": [r[::-1].replace("F", "C", 1)[::-1] if False else "CAV" + r[3:9] + "F" for r in rows],
                         "epitope": ["e%d" % (i // 3) for i in range(15)]}, index=list(range(100, 115)))


@op("clustermap", rand=True, slow=True)
def clustermap_five_clusters(H):
    return pp.similarity_clustermap(H["df_cluster15"], alpha_column=None)


@op("clustermap", rand=True, slow=True)
def clustermap_five_clusters_meta(H):
    return pp.similarity_clustermap(H["df_cluster15"], alpha_column=None, meta_columns=["epitope"], figsize=(3.5, 3.5))


@op("colors", rand=True)
def colors_hls_clusters(H):
    return pp.labels_to_colors_hls(np.array([1, 1, 1, 2, 2, 2, 3, 3, 3, 4, 4, 4, 5, 5, 5]), min_count=2)


# =============================================================================================
# option siblings: the SAME input under different option values (state keyed without an option meets its victim)
# =============================================================================================
@heap
def df_raw_nonfunctional():
    rows = [
        ["TRAV8-5", "CAVKASGSRLT", "TRAJ1*01", "TRBV1", "CASSDRAQPQHF", "TRBJ1-1*01", "HLA-A*02:01", "B2M"],
        ["TRAV26-1*01", "CIVRAPGRADMRF", "TRAJ43*01", "TRBV23-1", "CASSLGQAYEQYF", "TRBJ2-7*01", "HLA-DRA*01:01", "HLA-DRB1*01:01"],
        ["TRAV20*01", "CAVPSGAGSYQLTF", "TRAJ28*01", "TRBV13*01", "CASSYLPGQGDHYSNQPQHF", "TRBJ1-5*01", "HLA-B*08:01", "B2M"],
        ["TRAV1-1*01", "CAVKASGSRLT", "TRAJ8*01", "TRBV7-2*01", "CASSDWGSQNTLYF", "TRBJ2-4*01", "HLA-A*02", "B2M"],
    ]
    return pd.DataFrame(rows, columns=["TRAV", "CDR3A", "TRAJ", "TRBV", "CDR3B", "TRBJ", "MHCA", "MHCB"], index=[11, 12, 13, 14])


@op("standardize")
def standardize_nf_default(H):
    return prs.standardize_dataframe(H["df_raw_nonfunctional"], suppress_warnings=True)


@op("standardize")
def standardize_nf_keep_nonfunctional(H):
    return prs.standardize_dataframe(H["df_raw_nonfunctional"], tcr_enforce_functional=False, suppress_warnings=True)


@op("standardize")
def standardize_nf_allele(H):
    return prs.standardize_dataframe(H["df_raw_nonfunctional"], tcr_precision="allele", suppress_warnings=True)


@op("standardize")
def standardize_nf_allele_keep(H):
    return prs.standardize_dataframe(H["df_raw_nonfunctional"], tcr_precision="allele", tcr_enforce_functional=False,
                                     mhc_precision="protein", suppress_warnings=True)


@op("standardize")
def standardize_nf_mouse(H):
    return prs.standardize_dataframe(H["df_raw_nonfunctional"], species="MusMusculus", suppress_warnings=True)


@op("standardize")
def standardize_nf_mhc_allele(H):
    return prs.standardize_dataframe(H["df_raw_nonfunctional"], mhc_precision="allele", suppress_warnings=True)


@op("standardize")
def standardize_nf_warnings_on(H):
    return prs.standardize_dataframe(H["df_raw_nonfunctional"], strict_cdr3_standardization=True)


@op("standardize")
def standardize_raw_keep_nonfunctional(H):
    return prs.standardize_dataframe(H["df_raw"], tcr_enforce_functional=False, suppress_warnings=True)


@op("pcDelta")
def pcDelta_option_siblings(H):
    s = H["seqs_list"]
    return [prs.pcDelta(s, bins=H["bins_arr"]), prs.pcDelta(s, bins=H["bins_arr"], normalize=False),
            prs.pcDelta(s, bins=H["bins_arr"], pseudocount=0.5), prs.pcDelta(s, bins=6), prs.pcDelta(s, bins=H["bins_arr"], maxseqs=100)]


@op("pcDelta")
def pcDelta_siblings_unnormalised(H):
    return prs.pcDelta(H["seqs_list"], bins=H["bins_arr"], normalize=False, pseudocount=2.0)


@op("pcDelta")
def pcDelta_siblings_pseudo(H):
    return prs.pcDelta(H["seqs_list"], H["seqs_list2"], bins=H["bins_arr"], pseudocount=0.5)


@op("entropy")
def renyi_base_siblings(H):
    return [prs.renyi2_entropy(H["df_stats"], "a", base=b) for b in (2.0, 10, np.e, None, 0.5)] + \
           [prs.stdrenyi2_entropy(H["df_stats"], "a", base=b) for b in (2.0, 10, None)]


@op("pc")
def pc_conditional_weight_siblings(H):
    return [prs.pc_conditional(H["df_stats"], "group", "a"), prs.pc_conditional(H["df_stats"], "group", "a", group_weights=H["weights_arr"]),
            prs.pc_conditional(H["df_stats"], "group", "a", group_weights=[3.0, 1.0, 1.0]), prs.pc_conditional(H["df_stats"], "group", "b")]


@op("graph")
def graph_method_siblings(H):
    return [prs.graph_clustering(H["triplets_arr"], H["nodes_list"], clustering=c)["cluster"].nunique() for c in ("cc", "fastgreedy", "DBSCAN")]


@op("multimerge")
def multimerge_how_siblings(H):
    d = H["dfs_indexed"]
    return [prs.multimerge(d, "index"), prs.multimerge(d, "index", how="inner"), prs.multimerge(d, "index", how="left"),
            prs.multimerge(d, "index", suffixes=["a", "b"]), prs.multimerge(d, "index")]


@op("rankfreq")
def rankfrequency_option_siblings(H):
    import matplotlib.pyplot as plt

    out = []
    for kw in (dict(), dict(normalize_x=False), dict(normalize_y=True), dict(log_x=False, log_y=False), dict(scalex=2.0, scaley=0.5)):
        fig, ax = plt.subplots()
        out.append(pp.rankfrequency(H["counts_arr"], ax=ax, **kw))
    return out


@op("db", post=sorted_list)
def lookupdb_mode_siblings(H):
    q = ["CAAF", "CDDD", "CAKA", "CAA", "CAAAK"]
    return [sorted(H["lookup_db"].lookup(q, max_edits=1)), sorted(H["lookup_db"].lookup(q, max_edits=1, custom_distance="hamming")),
            sorted(H["lookup_db"].lookup(["CAF", "CD"], max_edits=2)), sorted(H["lookup_db"].lookup(["CAF", "CD"], max_edits=1)),
            sorted(H["lookup_db"].lookup(q, max_edits=1))]


@op("db", post=sorted_list)
def symdeldb_mode_siblings(H):
    q = ["CAAF", "CDDD", "CAKA", "CAA", "CAAAK"]
    return [sorted(H["symdel_db"].lookup(q)), sorted(H["symdel_db"].lookup(q, custom_distance="hamming")),
            sorted(H["symdel_db"].lookup(q, custom_distance=cb_lev2, max_custom_distance=2)), sorted(H["symdel_db"].lookup(q))]


@op("hclust")
def hclust_kw_siblings(H):
    s = H["seqs_list"]
    return [prs.hierarchical_clustering(s)[1], prs.hierarchical_clustering(s, cluster_kws=dict(t=2, criterion="distance"))[1],
            prs.hierarchical_clustering(s, linkage_kws=dict(method="single"))[1], prs.hierarchical_clustering(s)[1]]


# =============================================================================================
# grid templates: one template per combination of a pairwise-covering subset of an option grid, over small pools
# of inputs.  State keyed by part of (input, options) meets its colliding victim somewhere in the grid.
# =============================================================================================
def _pairwise(axes, cap=40):
    """Greedy all-pairs covering array over dict name -> list of values; deterministic."""
    import itertools

    names = list(axes)
    if not names:
        return [{}]
    full = [dict(zip(names, combo)) for combo in itertools.product(*[axes[n] for n in names])]
    if len(full) <= cap:
        return full
    need = set()
    for a, b in itertools.combinations(range(len(names)), 2):
        for va in range(len(axes[names[a]])):
            for vb in range(len(axes[names[b]])):
                need.add((a, va, b, vb))
    idx = [dict(zip(names, combo)) for combo in itertools.product(*[range(len(axes[n])) for n in names])]
    chosen = []
    while need and len(chosen) < cap:
        best, gain = None, -1
        for cand in idx:
            g = sum(1 for (a, va, b, vb) in need if cand[names[a]] == va and cand[names[b]] == vb)
            if g > gain:
                best, gain = cand, g
        if gain <= 0:
            break
        chosen.append(best)
        need = {(a, va, b, vb) for (a, va, b, vb) in need if not (best[names[a]] == va and best[names[b]] == vb)}
    return [{n: axes[n][c[n]] for n in names} for c in chosen]


def grid(group, base, fn, axes, cap=40, **flags):
    """fn(H, **params) -> value.  Axis values are (label, value) pairs; heap objects are named by 'H:<name>'."""
    combos = _pairwise({k: list(range(len(v))) for k, v in axes.items()}, cap)
    for ci, combo in enumerate(combos):
        params = {k: axes[k][i][1] for k, i in combo.items()}
        label = ",".join("%s=%s" % (k, axes[k][i][0]) for k, i in combo.items())
        name = "%s[%s]" % (base, label)

        def make(params=params):
            def call(H, cb=None):
                kw = {}
                for k, v in params.items():
                    if isinstance(v, str) and v.startswith("H:"):
                        v = H[v[2:]]
                    elif v is _CB:
                        v = cb
                    kw[k] = v
                return fn(H, **kw)

            return call

        inner = make()
        uses_cb = any(v is _CB for v in params.values())
        if uses_cb:
            f = lambda H, cb=None, inner=inner: inner(H, cb=cb)  # noqa: E731
            fl = dict(flags, cb=flags.get("cb", cb_lev2))
        else:
            f = lambda H, inner=inner: inner(H)  # noqa: E731
            fl = {k: v for k, v in flags.items() if k != "cb"}
        f.__name__ = name
        f._grid_fn = fn
        assert name not in OPS, name
        OPS[name] = Op(name, f, group, **fl)


class _CBType:
    def __repr__(self):
        return "<callback>"


_CB = _CBType()
SEQ_POOL = [("list", "H:seqs_list"), ("list_b", "H:seqs_list_b"), ("arr", "H:seqs_arr"), ("arr_b", "H:seqs_arr_b")]
MODES = [("lev", None), ("ham", "hamming"), ("cb", _CB)]


def _g_kdtree(H, seqs, max_edits, mode, compression, max_returns, out):
    kw = dict(max_edits=max_edits, custom_distance=mode, compression=compression, max_returns=max_returns, output_type=out)
    if callable(mode):
        kw["max_custom_distance"] = 4
    r = prs.kdtree(seqs, **kw)
    if out != "triplets":
        return r
    return sorted(r) if max_returns is None else sorted((i, d) for i, _, d in r)


grid("kdtree", "g_kdtree", _g_kdtree,
     dict(seqs=SEQ_POOL, max_edits=[("1", 1), ("2", 2)], mode=MODES, compression=[("1", 1), ("4", 4)],
          max_returns=[("all", None), ("2", 2)], out=[("trip", "triplets"), ("nd", "ndarray")]), cap=30)


def _g_kdtree_pool(H, seqs, max_edits, mode, n_cpu):
    return sorted(prs.kdtree(seqs, max_edits=max_edits, custom_distance=mode, n_cpu=n_cpu))


grid("kdtree", "g_kdtree_pool", _g_kdtree_pool,
     dict(seqs=SEQ_POOL, max_edits=[("1", 1), ("2", 2)], mode=MODES, n_cpu=[("2", 2), ("3", 3), ("5", 5)]), cap=16, pool=True)


def _g_symdel(H, fn, seqs, max_edits, mode, seqs2):
    f = getattr(prs, fn)
    if fn == "hash_based":
        max_edits = 1  # the two-edit ball of a 13-letter string is ~10^5 strings per query: too slow for a template
    kw = dict(max_edits=max_edits, custom_distance=mode)
    if fn != "hash_based":
        kw["seqs2"] = seqs2
    if callable(mode):
        kw["max_custom_distance"] = 4
    return sorted(f(seqs, **kw))


grid("symdel", "g_search", _g_symdel,
     dict(fn=[("symdel", "symdel"), ("nn", "nearest_neighbor"), ("hash", "hash_based")], seqs=SEQ_POOL,
          max_edits=[("1", 1), ("2", 2)], mode=MODES, seqs2=[("none", None), ("l2", "H:seqs_list2"), ("arr", "H:seqs_arr")]), cap=30)


def _g_db(H, db, queries, mode):
    kw = dict(custom_distance=mode)
    if callable(mode):
        kw["max_custom_distance"] = 4
    return sorted(H[db].lookup(queries, **kw))


grid("db", "g_db", _g_db,
     dict(db=[("symdel", "symdel_db"), ("lookup", "lookup_db")], mode=MODES,
          queries=[("q1", ["CAAF", "CCCC", "CAAA"]), ("q2", ["CAAF", "CDDD", "CAKA", "CAA"]), ("arr", "H:seqs_arr"), ("arr_b", "H:seqs_arr_b")]))


def _g_pcdelta(H, seqs, seqs2, bins, normalize, pseudocount, metric):
    return prs.pcDelta(seqs, seqs2, metric=metric, bins=bins, normalize=normalize, pseudocount=pseudocount)


grid("pcDelta", "g_pcDelta", _g_pcdelta,
     dict(seqs=[("list", "H:seqs_list"), ("list_b", "H:seqs_list_b"), ("series", "H:seqs_series")],
          seqs2=[("none", None), ("l2", "H:seqs_list2")], bins=[("def", None), ("arr", "H:bins_arr"), ("5", 5)],
          normalize=[("T", True), ("F", False)], pseudocount=[("0", 0.0), ("h", 0.5)],
          metric=[("def", None), ("lev", "H:metric_lev"), ("wlev", "H:metric_wlev")]), cap=24)


def _g_pcdelta_tbl(H, df, df2, metric, bins):
    return prs.pcDelta(df, df2, metric=metric, bins=bins)


grid("pcDelta", "g_pcDelta_tbl", _g_pcdelta_tbl,
     dict(df=[("tcr", "H:df_tcr"), ("tcr2", "H:df_tcr2")], df2=[("none", None), ("tcr2", "H:df_tcr2"), ("tcr", "H:df_tcr")],
          metric=[("def", None), ("beta", "H:metric_beta"), ("cdr3", "H:metric_cdr3"), ("all", "H:metric_cdrall"), ("acdr", "H:metric_alphacdr")],
          bins=[("def", None), ("arr", "H:bins_arr")]), cap=20)


def _g_metric(H, metric, a, b):
    m = H[metric]
    return [m.calc_cdist_matrix(a, b), m.calc_pdist_vector(a)]


grid("metric", "g_metric_tbl", _g_metric,
     dict(metric=[("beta", "metric_beta"), ("cdr3", "metric_cdr3"), ("all", "metric_cdrall"), ("acdr", "metric_alphacdr")],
          a=[("tcr", "H:df_tcr"), ("tcr2", "H:df_tcr2")], b=[("tcr", "H:df_tcr"), ("tcr2", "H:df_tcr2")]))
grid("metric", "g_metric_str", _g_metric,
     dict(metric=[("lev", "metric_lev"), ("wlev", "metric_wlev")], a=SEQ_POOL, b=[("l2", "H:seqs_list2"), ("short", "H:seqs_short")]))


def _g_standardize(H, df, enforce, tcr_precision, mhc_precision, species, strict):
    return prs.standardize_dataframe(df, tcr_enforce_functional=enforce, tcr_precision=tcr_precision, mhc_precision=mhc_precision,
                                     species=species, strict_cdr3_standardization=strict, suppress_warnings=True)


grid("standardize", "g_standardize", _g_standardize,
     dict(df=[("raw", "H:df_raw"), ("nf", "H:df_raw_nonfunctional"), ("tcr", "H:df_tcr")], enforce=[("T", True), ("F", False)],
          tcr_precision=[("gene", "gene"), ("allele", "allele")], mhc_precision=[("gene", "gene"), ("protein", "protein"), ("allele", "allele")],
          species=[("human", "HomoSapiens"), ("mouse", "MusMusculus")], strict=[("F", False), ("T", True)]), cap=24)


def _g_stats(H, df, features, by, base):
    out = [prs.renyi2_entropy(df, features, by=by, base=base)]
    if by is None:
        out.append(prs.stdrenyi2_entropy(df, features, base=base))
        out.append(prs.pc(df[features]) if not isinstance(features, list) else prs.pc_joint(df, features))
    else:
        out.append(prs.pc_conditional(df, by, features))
        out.append(prs.pc_grouped_cross(df, by, features))
    return out


grid("entropy", "g_stats", _g_stats,
     dict(df=[("a", "H:df_stats"), ("b", "H:df_stats_b"), ("cat", "H:df_categorical")], features=[("a", "a"), ("ab", ["a", "b"]), ("b", "b")],
          by=[("none", None), ("group", "group"), ("lgroup", ["group"])], base=[("2", 2.0), ("e", None), ("10", 10)]), cap=20)


def _g_hclust(H, seqs, metric, linkage_kws, cluster_kws):
    kw = {}
    if linkage_kws is not None:
        kw["linkage_kws"] = linkage_kws
    if cluster_kws is not None:
        kw["cluster_kws"] = cluster_kws
    return prs.hierarchical_clustering(seqs, metric=metric, **kw)


grid("hclust", "g_hclust", _g_hclust,
     dict(seqs=[("list", "H:seqs_list"), ("list_b", "H:seqs_list_b"), ("eq", "H:seqs_eqlen")],
          metric=[("def", None), ("lev", "H:metric_lev"), ("wlev", "H:metric_wlev")],
          linkage_kws=[("def", None), ("heap", "H:dict_linkage"), ("single", {"method": "single"})],
          cluster_kws=[("def", None), ("heap", "H:dict_cluster"), ("maxclust", {"t": 3, "criterion": "maxclust"})]), cap=16)


def _g_graph(H, triplets, nodes, clustering):
    return prs.graph_clustering(triplets, nodes, clustering=clustering)


grid("graph", "g_graph", _g_graph,
     dict(triplets=[("arr", "H:triplets_arr"), ("list", "H:triplets_list")], nodes=[("list", "H:nodes_list"), ("series", "H:nodes_series")],
          clustering=[("cc", "cc"), ("fg", "fastgreedy"), ("ml", "multilevel"), ("dbscan", "DBSCAN")]), rand=True)


def _g_subsample(H, counts, n):
    return prs.subsample(counts, n)


grid("subsample", "g_subsample", _g_subsample,
     dict(counts=[("arr", "H:counts_arr"), ("arr_b", "H:counts_arr_b"), ("list", "H:counts_list"), ("ro", "H:counts_readonly")],
          n=[("0", 0), ("3", 3), ("9", 9), ("all", 19)]), rand=True)


def _g_downsample(H, seqs, maxseqs):
    return prs.downsample(seqs, maxseqs)


grid("downsample", "g_downsample", _g_downsample,
     dict(seqs=[("list", "H:seqs_list"), ("arr", "H:seqs_arr"), ("series", "H:seqs_named_series"), ("tcr", "H:df_tcr"), ("tuple", "H:seqs_tuple")],
          maxseqs=[("none", None), ("0", 0), ("3", 3), ("5", 5), ("big", 50)]), cap=16, rand=True)


def _g_colors(H, fn, labels, min_count):
    return getattr(pp, fn)(labels, min_count=min_count)


grid("colors", "g_colors", _g_colors,
     dict(fn=[("hls", "labels_to_colors_hls"), ("tab", "labels_to_colors_tableau")],
          labels=[("many", "H:many_labels"), ("nodes", "H:nodes_list"), ("series", "H:nodes_series")],
          min_count=[("none", None), ("1", 1), ("2", 2)]), rand=True)


def _g_rankfreq(H, data, normalize_x, normalize_y, log):
    import matplotlib.pyplot as plt

    fig, ax = plt.subplots()
    return pp.rankfrequency(data, ax=ax, normalize_x=normalize_x, normalize_y=normalize_y, log_x=log, log_y=log)


grid("rankfreq", "g_rankfreq", _g_rankfreq,
     dict(data=[("arr", "H:counts_arr"), ("clone", "H:clone_sizes"), ("list", "H:counts_list")], normalize_x=[("T", True), ("F", False)],
          normalize_y=[("F", False), ("T", True)], log=[("T", True), ("F", False)]), cap=10)


def _g_multimerge(H, dfs, on, suffixes, how):
    kw = {} if how is None else {"how": how}
    return prs.multimerge(dfs, on, suffixes=suffixes, **kw)


grid("multimerge", "g_multimerge", _g_multimerge,
     dict(dfs=[("idx", "H:dfs_indexed"), ("key", "H:dfs_list")], on=[("index", "index"), ("key", "key")],
          suffixes=[("none", None), ("heap", "H:suffixes_list")], how=[("def", None), ("inner", "inner"), ("left", "left")]), cap=14)


def _g_powerlaw(H, c, cmin, method):
    return prs.powerlaw_mle_alpha(c, cmin=cmin, method=method)


grid("powerlaw", "g_powerlaw_mle", _g_powerlaw,
     dict(c=[("arr", "H:counts_arr"), ("arr_b", "H:counts_arr_b"), ("big", "H:counts_big")], cmin=[("1", 1), ("2", 2), ("3", 3)],
          method=[("simple", "simple"), ("cc", "continuitycorrection"), ("exact", "exact")]))


def _g_neighbors(H, fn, seqs, neighborhood):
    f = getattr(prs, fn)
    r = f(seqs, neighborhood=neighborhood) if neighborhood is not None else f(seqs)
    if isinstance(seqs, (set, frozenset)):
        # positions in a set are its iteration order, which depends on the interpreter's hash seed and is no part of any claim:
        # keep what is order-free (the canonical value must be the same in every interpreter - determinism self-test)
        if fn == "find_neighbor_pairs_index":
            return len(r)
        if fn == "calculate_neighbor_numbers":
            return sorted(np.asarray(r).tolist())
    return sorted(r) if fn != "calculate_neighbor_numbers" else r


grid("neighbors", "g_neighbors", _g_neighbors,
     dict(fn=[("pairs", "find_neighbor_pairs"), ("idx", "find_neighbor_pairs_index"), ("num", "calculate_neighbor_numbers")],
          seqs=[("set", "H:seqs_set"), ("tuple", "H:seqs_tuple"), ("arr", "H:seqs_arr_b")],
          neighborhood=[("def", None), ("ham", prs.hamming_neighbors), ("lev", prs.levenshtein_neighbors), ("cb", _CB)]), cb=cb_hamming_nb)


# =============================================================================================
# round-5 lessons: optimum at a bound, dict-valued options of dependencies, Series with a non-default index in the
# serial search functions
# =============================================================================================
@heap
def ones_many():
    return np.ones(60)


@heap
def almost_ones():
    return [1] * 200 + [2] * 3


@heap
def list_bounds():
    return [1.5, 4.5]


@heap
def dict_colorscheme():
    return {"C": "gold", "W": "magenta", "A": [0.1, 0.2, 0.3]}


@heap
def seqs_series_b():
    return pd.Series(["CAAA", "CADA", "CAAK", "CDKD", "CAAA", "CAKK", "CAAAK"], index=[3, 1, 4, 15, 9, 2, 6], name="cdr3b")


@heap
def seqs_series_str():
    return pd.Series(["CASSLGQAYEQYF", "CASSLGQAYEQF", "CASSLAQAYEQYF", "CAWSVGTDTQYF"], index=list("wxyz"))


@op("powerlaw")
def powerlaw_exact_at_upper_bound(H):
    return [prs.powerlaw_mle_alpha(H["ones_many"]), prs.powerlaw_mle_alpha(H["almost_ones"], cmin=1, method="exact")]


@op("powerlaw")
def powerlaw_exact_at_lower_bound(H):
    return prs.powerlaw_mle_alpha([1, 1, 2, 50, 400, 3000, 10000], cmin=1, method="exact")


@op("powerlaw")
def powerlaw_exact_heap_bounds(H):
    return [prs.powerlaw_mle_alpha(H["almost_ones"], bounds=H["list_bounds"]), prs.powerlaw_mle_alpha(H["counts_arr"], bounds=H["list_bounds"]),
            prs.powerlaw_mle_alpha(H["counts_arr"], bounds=tuple(H["list_bounds"]))]


@op("powerlaw")
def powerlaw_exact_narrow_then_default(H):
    return [prs.powerlaw_mle_alpha(H["counts_arr"], bounds=[1.5, 2.0]), prs.powerlaw_mle_alpha(H["counts_arr"])]


@op("powerlaw")
def powerlaw_exact_wide_bounds(H):
    return prs.powerlaw_mle_alpha(H["almost_ones"], bounds=[1.5, 8.0], options={"xatol": 1e-8})


@op("logos", slow=True)
def seqlogos_dict_colors(H):
    return pp.seqlogos(H["seqs_eqlen"], color_scheme=H["dict_colorscheme"])


@op("logos", slow=True)
def seqlogos_vj_dict_colors(H):
    return pp.seqlogos_vj(H["df_vj"], "cdr3", "v", "j", color_scheme={"S": "red", "F": "blue"})


@op("logos", slow=True)
def seqlogos_named_scheme(H):
    return pp.seqlogos(H["seqs_eqlen"], color_scheme="charge", show_spines=True)


@op("logos", slow=True)
def seqlogos_default_again(H):
    return pp.seqlogos(H["seqs_eqlen"][::-1])


SERIES_POOL = [("ser", "H:seqs_series"), ("ser_b", "H:seqs_series_b"), ("ser_str", "H:seqs_series_str"), ("named", "H:seqs_named_series")]


def _g_series_search(H, fn, seqs, mode, seqs2):
    f = getattr(prs, fn)
    kw = dict(max_edits=1, custom_distance=mode)
    if fn in ("symdel", "nearest_neighbor"):
        kw["seqs2"] = seqs2
    return sorted(f(seqs, **kw))


grid("symdel", "g_series_search", _g_series_search,
     dict(fn=[("symdel", "symdel"), ("nn", "nearest_neighbor"), ("hash", "hash_based"), ("kdtree", "kdtree")], seqs=SERIES_POOL,
          mode=[("lev", None), ("ham", "hamming")], seqs2=[("none", None), ("ser", "H:seqs_series_b"), ("list", "H:seqs_list2")]), cap=20)


def _g_series_db(H, db, queries, mode):
    return sorted(H[db].lookup(queries, custom_distance=mode))


grid("db", "g_series_db", _g_series_db,
     dict(db=[("symdel", "symdel_db"), ("lookup", "lookup_db")], queries=SERIES_POOL, mode=[("lev", None), ("ham", "hamming")]), cap=10)


def _g_series_misc(H, fn, seqs):
    if fn == "pdist":
        return prs.pdist(seqs)
    if fn == "pcDelta":
        return prs.pcDelta(seqs, bins=H["bins_arr"])
    if fn == "hclust":
        return prs.hierarchical_clustering(seqs)
    if fn == "pc":
        return [prs.pc(seqs), prs.stdpc(seqs)]
    if fn == "neighbors":
        return [prs.calculate_neighbor_numbers(seqs), sorted(prs.find_neighbor_pairs(seqs))]
    return prs.downsample(seqs, 3)


grid("pdist", "g_series_misc", _g_series_misc,
     dict(fn=[(x, x) for x in ("pdist", "pcDelta", "hclust", "pc", "neighbors")], seqs=SERIES_POOL), cap=20)


# =============================================================================================
# grids for the remaining public callables
# =============================================================================================
def _g_pdist(H, fn, a, b, metric, dtype):
    kw = {"dtype": dtype}
    if metric is not None:
        kw["metric"] = metric
    return prs.pdist(a, **kw) if fn == "pdist" else prs.cdist(a, b, **kw)


grid("pdist", "g_pdist", _g_pdist,
     dict(fn=[("pdist", "pdist"), ("cdist", "cdist")], a=SEQ_POOL + [("ser", "H:seqs_series"), ("tuple", "H:seqs_tuple")],
          b=[("l2", "H:seqs_list2"), ("short", "H:seqs_short"), ("arr", "H:seqs_arr")], metric=[("def", None), ("cb", _CB)],
          dtype=[("u8", np.uint8), ("f", float), ("i64", np.int64)]), cap=20, cb=cb_plain_lev)


def _g_sets(H, fn, a, b):
    return getattr(prs, fn)(a, b)


grid("sets", "g_sets", _g_sets,
     dict(fn=[("jaccard", "jaccard_index"), ("overlap", "overlap"), ("coef", "overlap_coefficient")],
          a=[("list", "H:set_a"), ("series", "H:set_b"), ("set", "H:seqs_set"), ("arr", "H:seqs_arr"), ("tuple", "H:seqs_tuple")],
          b=[("list", "H:set_a"), ("series", "H:set_b"), ("set", "H:seqs_set"), ("arr_b", "H:seqs_arr_b")]), cap=20)


def _g_chao(H, fn, counts):
    f = getattr(prs, fn)
    return f(counts, 4) if fn.endswith("2") else f(counts)


grid("chao", "g_chao", _g_chao,
     dict(fn=[(x, x) for x in ("chao1", "var_chao1", "chao2", "var_chao2")],
          counts=[("f", "H:f_counts"), ("single", "H:f_counts_single"), ("arr", "H:counts_arr"), ("list", "H:counts_list"), ("ro", "H:counts_readonly")]))


def _g_pcn(H, fn, counts):
    return getattr(prs, fn)(counts)


grid("pc", "g_pc_n", _g_pcn,
     dict(fn=[(x, x) for x in ("pc_n", "varpc_n", "stdpc_n")],
          counts=[("arr", "H:counts_arr"), ("arr_b", "H:counts_arr_b"), ("ro", "H:counts_readonly"), ("series", "H:counts_series"), ("big", "H:counts_big")]))


def _g_pc(H, a, b):
    return prs.pc(a, b)


grid("pc", "g_pc", _g_pc,
     dict(a=SEQ_POOL + [("ser", "H:seqs_series"), ("tbl", "H:df_stats_nan"), ("cat", "H:df_categorical")],
          b=[("none", None), ("l2", "H:seqs_list2"), ("arr", "H:seqs_arr"), ("tbl", "H:df_stats_nan")]), cap=16)


def _g_neighborhood(H, fn, x, alphabet):
    if fn == "lev":
        return sorted(set(prs.levenshtein_neighbors(x, alphabet=alphabet)))
    if fn == "ham":
        return sorted(prs.hamming_neighbors(x, alphabet=alphabet))
    if fn == "ham_var":
        return sorted(prs.hamming_neighbors(x, alphabet=alphabet, variable_positions=H["varpos_list"]))
    return sorted(prs.next_nearest_neighbors(x, lambda s: prs.hamming_neighbors(s, alphabet=alphabet), maxdistance=2))


grid("neighbors", "g_neighborhood", _g_neighborhood,
     dict(fn=[(x, x) for x in ("lev", "ham", "ham_var", "nnn")], x=[("CADK", "CADK"), ("CAAK", "CAAK"), ("AACC", "AACC")],
          alphabet=[("AC", "AC"), ("ACDK", "ACDK"), ("list", ["A", "C", "D"])]), cap=14)


def _g_nndist(H, seq, ref, maxdist):
    return [prs.nndist_hamming(seq, ref, maxdist=maxdist), prs.isdist1(seq, ref), prs.isdist1(seq, ref, neighborhood=prs.hamming_neighbors)]


grid("neighbors", "g_nndist", _g_nndist,
     dict(seq=[("CAAA", "CAAA"), ("CADD", "CADD"), ("CKKA", "CKKA")], ref=[("set", "H:ref_set"), ("far", "H:ref_set_far"), ("tuple", "H:seqs_tuple")],
          maxdist=[("1", 1), ("2", 2), ("3", 3)]), cap=12)


def _g_density(H, data, discrete, sort, bins, cbar):
    import matplotlib.pyplot as plt

    fig, ax = plt.subplots()
    d = H[data]
    return pp.density_scatter(d[0], d[1], ax=ax, discrete=discrete, sort=sort, bins=bins, cbar=cbar)


grid("density", "g_density", _g_density,
     dict(data=[("pts", "xy_points"), ("disc", "xy_discrete")], discrete=[("F", False), ("T", True)], sort=[("T", True), ("F", False)],
          bins=[("20", 20), ("5", 5)], cbar=[("F", False), ("T", True)]), cap=10)


def _g_logos(H, seqs, color_scheme, spines):
    kw = {}
    if color_scheme is not None:
        kw["color_scheme"] = color_scheme
    if spines is not None:
        kw["show_spines"] = spines
    return pp.seqlogos(seqs, **kw)


grid("logos", "g_logos", _g_logos,
     dict(seqs=[("eq", "H:seqs_eqlen"), ("ser", "H:seqs_series_str")],
          color_scheme=[("def", None), ("charge", "charge"), ("dict", "H:dict_colorscheme"), ("skylign", "skylign_protein")],
          spines=[("def", None), ("T", True)]), cap=8, slow=True)


def _g_label_axes(H, n, labels, style):
    import matplotlib.pyplot as plt

    fig, axes = plt.subplots(ncols=n)
    kw = {} if labels is None else {"labels": labels}
    pp.label_axes(fig if style == "fig" else np.atleast_1d(axes), labelstyle="%s)" if style != "fig" else r"%s", **kw)
    return fig


grid("labelaxes", "g_label_axes", _g_label_axes,
     dict(n=[("1", 1), ("3", 3)], labels=[("def", None), ("list", ["x", "y"]), ("str", "abc")], style=[("fig", "fig"), ("axes", "axes")]))


def _g_wlev(H, ins, dele, sub, a):
    from pyrepseq.metric import WeightedLevenshtein

    m = WeightedLevenshtein(insertion_weight=ins, deletion_weight=dele, substitution_weight=sub)
    return [m.calc_pdist_vector(a), m.calc_cdist_matrix(a, H["seqs_short"])]


grid("metric", "g_wlev", _g_wlev,
     dict(ins=[("1", 1), ("2", 2)], dele=[("1", 1), ("3", 3)], sub=[("1", 1), ("2", 2)], a=[("arr", "H:seqs_arr"), ("list", "H:seqs_list"), ("ser", "H:seqs_series")]), cap=10)


def _g_tcr_metric(H, cls, kw, df):
    m = getattr(tm, cls)(**kw)
    return [m.calc_pdist_vector(df), m.calc_cdist_matrix(df, H["df_tcr2"])]


grid("metric", "g_tcr_metric", _g_tcr_metric,
     dict(cls=[(x, x) for x in ("AlphaCdr3Levenshtein", "BetaCdr3Levenshtein", "Cdr3Levenshtein", "AlphaCdrLevenshtein", "BetaCdrLevenshtein", "CdrLevenshtein")],
          kw=[("def", {}), ("ins2", {"insertion_weight": 2}), ("sub3", {"substitution_weight": 3})], df=[("tcr", "H:df_tcr"), ("tcr2", "H:df_tcr2")]), cap=14)


def _g_tcr_weights(H, cls, kw):
    m = getattr(tm, cls)(**kw)
    return m.calc_cdist_matrix(H["df_tcr"], H["df_tcr2"])


grid("metric", "g_tcr_weights", _g_tcr_weights,
     dict(cls=[("Cdr3", "Cdr3Levenshtein"), ("Cdr", "CdrLevenshtein")],
          kw=[("def", {}), ("a2", {"alpha_weight": 2}), ("b3", {"beta_weight": 3}), ("a2b3", {"alpha_weight": 2, "beta_weight": 3})]))
grid("metric", "g_tcr_cdrweights", _g_tcr_weights,
     dict(cls=[("ACdr", "AlphaCdrLevenshtein"), ("BCdr", "BetaCdrLevenshtein"), ("Cdr", "CdrLevenshtein")],
          kw=[("c1", {"cdr1_weight": 2}), ("c2", {"cdr2_weight": 3}), ("c3", {"cdr3_weight": 2}), ("all", {"cdr1_weight": 2, "cdr2_weight": 2, "cdr3_weight": 2})]))


def _g_valid(H, fn, values):
    f = getattr(prs, fn)
    return [f(v) for v in values]


grid("valid", "g_valid", _g_valid,
     dict(fn=[("aa", "isvalidaa"), ("cdr3", "isvalidcdr3")],
          values=[("mixed", "H:mixed_values"), ("list", "H:seqs_list"), ("bad", "H:seqs_bad_letter"), ("short", "H:seqs_short")]))


def _g_util(H, fn, seqs):
    if fn == "regex":
        return prs.seqs_to_regex(seqs, align=False)
    if fn == "consensus":
        return prs.seqs_to_consensus(seqs, align=False)
    if fn == "numpy":
        return prs.ensure_numpy(seqs)
    return prs.convert_tuple_to_dataframe_if_necessary((seqs, seqs))


grid("util", "g_util", _g_util,
     dict(fn=[(x, x) for x in ("regex", "consensus", "numpy", "tuple")],
          seqs=[("eq", "H:seqs_eqlen"), ("eq_ser", "H:seqs_series_str"), ("tuple", "H:seqs_tuple"), ("arr", "H:seqs_arr")]))


def _g_background(H, return_bins):
    return prs.load_pcDelta_background(return_bins=return_bins)


grid("background", "g_background", _g_background, dict(return_bins=[("T", True), ("F", False)]), io=True)


# more "the caller modifies what it was handed back" templates
@op("graph")
def own_graph_result_modified(H):
    r = prs.graph_clustering(H["triplets_arr"], H["nodes_list"])
    r.iloc[:, :] = 0
    r2 = prs.graph_clustering(H["triplets_arr"], H["nodes_list"], clustering="DBSCAN")
    r2.drop(r2.index, inplace=True)
    return None


@op("multimerge")
def own_merge_result_modified(H):
    r = prs.multimerge(H["dfs_indexed"], "index")
    r.iloc[:, :] = -1
    r2 = prs.multimerge(H["dfs_list"], "key", suffixes=H["suffixes_list"])
    r2.drop(r2.index[:2], inplace=True)
    return None


@op("pc")
def own_pc_tables_modified(H):
    r = prs.pc_grouped_cross(H["df_stats"], "group", "a")
    r.iloc[:, :] = 7.0
    return None


@op("powerlaw", rand=True)
def own_powerlaw_sample_modified(H):
    r = prs.powerlaw_sample(size=50, xmin=2, alpha=2.5)
    r[:] = -1
    return None


@op("util")
def own_util_results_modified(H):
    a = prs.ensure_numpy(H["seqs_list"])
    a[:] = "X"
    b = prs.convert_tuple_to_dataframe_if_necessary((H["seqs_eqlen"], H["seqs_eqlen"]))
    b.iloc[:, :] = "X"
    c = prs.ensure_numpy(H["seqs_named_series"]).copy()
    c[:] = "X"
    return None


@op("metric")
def own_tcr_metric_results_modified(H):
    a = H["metric_cdr3"].calc_cdist_matrix(H["df_tcr"], H["df_tcr2"])
    a[:] = 0
    b = H["metric_cdrall"].calc_pdist_vector(H["df_tcr"])
    b[:] = 0
    c = H["metric_wlev"].calc_cdist_matrix(H["seqs_series"], H["seqs_short"])
    c[:] = 0
    return None


@op("clustermap", rand=True, slow=True)
def own_clustermap_results_modified(H):
    cg, linkage, cluster = pp.similarity_clustermap(H["df_cluster"])
    linkage[:] = 0
    cluster[:] = 0
    return None


@op("standardize")
def own_standardized_nf_modified(H):
    out = prs.standardize_dataframe(H["df_raw_nonfunctional"], tcr_enforce_functional=False, suppress_warnings=True)
    out.iloc[:, :] = "changed"
    return None


# =============================================================================================
# The caller modifies ITS OWN object between two calls (legal; a cache keyed by id() or by a partial key goes stale).
# MUTATIONS[name](obj) changes the heap object in place to one fixed new state (idempotent).  Objects held inside a
# library object (DEPENDS) are not targets: changing a database's reference list after the build is outside every claim.
# =============================================================================================
def _m_seqs_list(o):
    o[:] = ["CASSLGQAYEQYW", "CASSLGQAYEQF", "CASSLAQAYEQYF", "CASSPGQAYEQYF", "CASSLGQAYEQYW", "CAWSVGTDTQYF",
            "CAWSVGSDTQYF", "CSARDRGNTIYF", "CASSLGQAYEQY", "CASRLGQAYEQYF", "CASRLGQAYEQYW"]


def _m_seqs_arr(o):
    o[1] = "CDDD"
    o[6] = "CAK"


def _m_counts_arr(o):
    o[0] = 3
    o[7] = 6


def _m_df_stats(o):
    o.loc[22, "b"] = "r"
    o.loc[25, "a"] = "y"
    o.loc[29, "group"] = "g3"


def _m_df_tcr(o):
    o.loc[102, "CDR3B"] = "CASSDRAQPQHF"
    o.loc[105, "CDR3A"] = "CAVNGGSQGNLF"


def _m_df_cluster(o):
    o.loc[42, "cdr3b"] = "CASSDRAQPQHF"
    o.loc[45, "epitope"] = "e3"


def _m_ref_set(o):
    o.discard("CAAA")
    o.add("CKKK")


def _m_seqs_set(o):
    o.discard("CDDD")
    o.add("CAAD")


def _m_dict_cluster(o):
    o["t"] = 5


def _m_dict_linkage(o):
    o["method"] = "single"


def _m_list_on(o):
    o[:] = ["a", "group"]


def _m_triplets_arr(o):
    o[4] = [3, 5, 2]
    o[5] = [5, 3, 2]


def _m_nodes_list(o):
    o[2] = "renamed"


def _m_seqs_series(o):
    o.iloc[0] = "CKKK"
    o.iloc[3] = "CAAA"


def _m_counts_list(o):
    o[1] = 4


def _m_bins_arr(o):
    o[-1] = 14


def _m_seqs_list2(o):
    o[2] = "CASSLGQAYEQYF"


def _m_many_labels(o):
    o[:] = ["L%02d" % (i % 23) for i in range(40)]


def _m_df_raw(o):
    o.loc[1, "TRBV"] = "TRBV9*01"


def _m_seqs_list_b(o):
    o[3] = "CASSLGQAYEQYF"


def _m_df_beta(o):
    o.loc[6, "CDR3B"] = "CASSDRAQPQHF"


def _m_weights_arr(o):
    o[0] = 3.0


# =============================================================================================
# inputs beyond typical size thresholds (a few hundred / a thousand elements); the expensive ones are thorough-only
# =============================================================================================
@heap
def seqs_1100():
    base, aa = "CASSLGQAYEQYF", "ACDEFGHIKLMNPQRSTVWY"
    out = []
    for i in range(1100):
        j, k = i % len(base), (i * 7) % 20
        t = base[:j] + aa[k] + base[j + 1:]
        j2, k2 = (i * 3) % len(base), (i * 11) % 20
        out.append(t[:j2] + aa[k2] + t[j2 + 1:])
    return out


@heap
def df_1100(H):
    s_ = H["seqs_1100"]
    return pd.DataFrame({"cdr3b": s_, "cdr3a": [x[::-1] for x in s_], "group": ["g%d" % (i % 7) for i in range(len(s_))],
                         "a": [x[4] for x in s_], "b": [x[7] for x in s_]})


@op("kdtree")
def large_kdtree(H):
    r = prs.kdtree(H["seqs_1100"], max_edits=1)
    return [len(r), sorted(r)[:50]]


@op("kdtree", pool=True)
def large_kdtree_ncpu4(H):
    r = prs.kdtree(H["seqs_1100"], max_edits=1, n_cpu=4, compression=2)
    return [len(r), sorted(r)[:50]]


@op("symdel")
def large_symdel(H):
    r = prs.symdel(H["seqs_1100"], max_edits=1)
    r2 = prs.symdel(H["seqs_1100"][:600], max_edits=1, seqs2=H["seqs_1100"][500:])
    return [len(r), sorted(r)[:50], len(r2), sorted(r2)[:50]]


@op("pcDelta")
def large_pcDelta(H):
    return [prs.pcDelta(H["seqs_1100"]), prs.pc(H["seqs_1100"]), prs.pc(H["df_1100"][["a", "b"]]), prs.pc_joint(H["df_1100"], ["a", "b"])]


@op("pcDelta", rand=True)
def large_pcDelta_maxseqs(H):
    return [prs.pcDelta(H["seqs_1100"], maxseqs=1000), prs.downsample(H["seqs_1100"], 1050)[:20], prs.downsample(H["df_1100"], 1001).index[:20]]


@op("entropy")
def large_entropy(H):
    return [prs.renyi2_entropy(H["df_1100"], "a"), prs.renyi2_entropy(H["df_1100"], ["a", "b"], by="group"),
            prs.pc_conditional(H["df_1100"], "group", "a"), prs.pc_grouped_cross(H["df_1100"], "group", "a")]


@op("graph")
def large_graph(H):
    r = np.array(prs.symdel(H["seqs_1100"], max_edits=1))
    return [prs.graph_clustering(r, H["seqs_1100"])["cluster"].nunique(), prs.graph_clustering(r, H["seqs_1100"], clustering="DBSCAN").shape]


@op("rankfreq")
def large_rankfrequency(H):
    return pp.rankfrequency(np.arange(1, 5001) % 997 + 1)


@op("density")
def large_density(H):
    t = np.arange(5000, dtype=float)
    return pp.density_scatter(np.sin(t / 30.0) * 5 + t / 1000.0, np.cos(t / 40.0) * 3 + (t % 7), bins=30)


@op("colors", rand=True)
def large_colors(H):
    lab = ["c%d" % (i % 1050) for i in range(1100)]
    return [pp.labels_to_colors_hls(lab)[:30], pp.labels_to_colors_tableau(lab, min_count=2)[:60]]


@op("metric")
def large_metric(H):
    m = H["metric_lev"].calc_cdist_matrix(H["seqs_1100"], H["seqs_list"])
    return [m.shape, m[:5], prs.pdist(H["seqs_1100"][:400])[:40]]


@op("hclust", huge=True)
def huge_hclust(H):
    linkage, cluster = prs.hierarchical_clustering(H["seqs_1100"][:1001])
    return [linkage[:20], cluster[:50]]


@op("clustermap", rand=True, huge=True)
def huge_clustermap(H):
    cg, linkage, cluster = pp.similarity_clustermap(H["df_1100"].iloc[:1001], alpha_column=None)
    return [linkage[:20], cluster[:50]]


def _m_ref_list(o):
    o[0] = "CKKK"
    o.append("CAAF")


@heap
def ref_list():
    return ["CAAA", "CADA", "CAAK", "CDKD", "CAKK", "CAA"]


def _g_nndist_list(H, seq, maxdist):
    ref = H["ref_list"]
    return [prs.isdist1(seq, ref), prs.nndist_hamming(seq, ref, maxdist=maxdist)]


grid("neighbors", "g_nndist_list", _g_nndist_list,
     dict(seq=[("CAAA", "CAAA"), ("CADD", "CADD"), ("CKKA", "CKKA"), ("CAAF", "CAAF")], maxdist=[("1", 1), ("2", 2), ("3", 3)]), cap=8)


MUTATIONS = {k[3:]: v for k, v in list(globals().items()) if k.startswith("_m_")}


def _template_uses():
    """Which heap objects each template reads (static: source text of hand-written templates, parameters of grid templates)."""
    import inspect
    import re

    uses = {}
    for name, o in OPS.items():
        names = set()
        fn = o.fn
        try:
            src = inspect.getsource(fn)
        except (OSError, TypeError):
            src = ""
        names |= set(re.findall(r'H\["([A-Za-z0-9_]+)"\]', src))
        if hasattr(fn, "_grid_fn"):
            try:
                names |= set(re.findall(r'H\["([A-Za-z0-9_]+)"\]', inspect.getsource(fn._grid_fn)))
            except (OSError, TypeError):
                pass
        defaults = getattr(fn, "__defaults__", None) or ()
        for d in defaults:
            inner = getattr(d, "__closure__", None)
            if inner:
                for cell in inner:
                    try:
                        v = cell.cell_contents
                    except ValueError:
                        continue
                    if isinstance(v, dict):
                        for pv in v.values():
                            if isinstance(pv, str) and pv.startswith("H:"):
                                names.add(pv[2:])
                            elif isinstance(pv, str) and pv in HEAP:
                                names.add(pv)
        uses[name] = names
    return uses


USES = _template_uses()


# =============================================================================================
# round-8 lessons: tables with missing values for every grouped / table-taking function, V genes the packaged tables do not
# know, keyword arguments passed through to a DEFAULT callee
# =============================================================================================
@heap
def df_cluster_nan():
    a = ["CAVKASGSRLT", "CAVKASGSRLT", "CLANGSRLT", "CAVNGGSQGNLIF", "CAVNGGSQGNLIF", "CAVRASGSRLT", "CAVKASGARLT", "CAVNGGSQGNLF", "CAVKASGSRLT"]
    b = ["CASSDRAQPQHF", "CASSDRAQPQHF", "CASSANDRAF", "CASSLGQAYEQYF", "CASSLGQAFEQYF", "CASSDRAQPQF", "CASSDRAQPQHF", "CASSLGQAYEQYF", "CASSDRAQPQHF"]
    return pd.DataFrame({"cdr3a": a, "cdr3b": b, "epitope": ["e1", "e1", "e2", "e3", None, "e1", np.nan, "e3", "e2"],
                         "donor": ["d1", "d2", "d1", "d2", "d1", "d2", "d1", None, "d2"]}, index=list(range(60, 69)))


@heap
def df_cluster_nan_seq():
    df = df_cluster_nan()
    df.loc[62, "cdr3b"] = None
    df.loc[66, "cdr3a"] = np.nan
    return df


@heap
def df_vgenes_unknown():
    return pd.DataFrame({"CDR3B": ["CASSGETGQPQHF", "CASSTQGIHEQYF", "CASSTQGIHEQYF", "CAWSF", "CSATGYNEQFF"],
                         "TRBV": ["TRBV6-1*01", "TRBV9", "TRBV9*01", "TRBV30*01", "TRBV20-1"],
                         "CDR3A": ["CAVKASGSRLT", "CLANGSRLT", "CAVKASGSRLT", "CAVNGGSQGNLIF", "CAVRASGSRLT"],
                         "TRAV": ["TRAV1-1", "TRAV5*09", "TRAV5*01", "TRAV12-1*01", "TRAV1-1*01"]}, index=[31, 32, 33, 34, 35])


def _g_grouped_nan(H, fn, df, by, col):
    if fn == "grouped":
        return prs.pcDelta_grouped(df, by, col, bins=H["bins_arr"])
    if fn == "cross":
        return prs.pcDelta_grouped_cross(df, by, col, bins=H["bins_arr"])
    if fn == "cross_cond":
        return prs.pcDelta_grouped_cross(df, by, col, condensed=True, bins=H["bins_arr"])
    if fn == "pc_cross":
        return prs.pc_grouped_cross(df, by, col)
    if fn == "pc_cond":
        return prs.pc_conditional(df, by, col)
    return prs.renyi2_entropy(df, col, by=by)


grid("pcDelta", "g_grouped_nan", _g_grouped_nan,
     dict(fn=[(x, x) for x in ("grouped", "cross", "cross_cond", "pc_cross", "pc_cond", "renyi")],
          df=[("nan", "H:df_cluster_nan"), ("nanseq", "H:df_cluster_nan_seq"), ("full", "H:df_cluster")],
          by=[("epitope", "epitope"), ("donor", "donor"), ("both", ["epitope", "donor"])], col=[("b", "cdr3b"), ("a", "cdr3a")]), cap=24)


def _g_table_nan(H, fn, df):
    if fn == "pc":
        return prs.pc(df[["cdr3a", "cdr3b"]])
    if fn == "pc_joint":
        return prs.pc_joint(df, ["cdr3a", "epitope"])
    if fn == "pcDelta":
        return prs.pcDelta(df["cdr3b"], bins=H["bins_arr"])
    if fn == "hclust":
        return prs.hierarchical_clustering(df["cdr3a"])
    if fn == "kdtree":
        return sorted(prs.kdtree(df["cdr3b"]))
    if fn == "downsample":
        return prs.downsample(df, 100)
    if fn == "overlap":
        return [prs.overlap(df["epitope"], df["donor"]), prs.jaccard_index(df["epitope"], df["epitope"]), prs.overlap_coefficient(df["cdr3a"], df["cdr3b"])]
    return pp.labels_to_colors_tableau(df["donor"].fillna("none"))


grid("pcDelta", "g_table_nan", _g_table_nan,
     dict(fn=[(x, x) for x in ("pc", "pc_joint", "pcDelta", "hclust", "kdtree", "downsample", "overlap", "colors")],
          df=[("nan", "H:df_cluster_nan"), ("nanseq", "H:df_cluster_nan_seq")]), rand=True)


def _g_tcrdist_unknown(H, chain, trimmed, max_edits):
    return prs.nearest_neighbor_tcrdist(H["df_vgenes_unknown"], chain=chain, edit_on_trimmed=trimmed, max_edits=max_edits)


grid("tcrdist_nn", "g_tcrdist_unknown", _g_tcrdist_unknown,
     dict(chain=[("beta", "beta"), ("alpha", "alpha"), ("both", "both")], trimmed=[("T", True), ("F", False)], max_edits=[("1", 1), ("2", 2)]), io=True)


@op("metric")
def metric_unknown_vgenes(H):
    return [H["metric_cdrall"].calc_pdist_vector(H["df_vgenes_unknown"]), H["metric_beta"].calc_pdist_vector(H["df_vgenes_unknown"])]


@op("standardize")
def standardize_unknown_vgenes(H):
    return prs.standardize_dataframe(H["df_vgenes_unknown"], suppress_warnings=True)


def _g_pdist_kwargs(H, fn, seqs, kw):
    if fn == "pdist":
        return prs.pdist(seqs, **kw)
    return prs.cdist(seqs, H["seqs_list2"], **kw)


grid("pdist", "g_pdist_kwargs", _g_pdist_kwargs,
     dict(fn=[("pdist", "pdist"), ("cdist", "cdist")], seqs=[("list", "H:seqs_list"), ("arr", "H:seqs_arr"), ("list_b", "H:seqs_list_b")],
          kw=[("none", {}), ("cutoff1", {"score_cutoff": 1}), ("weights", {"weights": (1, 1, 2)}), ("lower", {"processor": str.lower}),
              ("bad", {"no_such_option": True}), ("cutoff3_f", {"score_cutoff": 3, "dtype": float})]), cap=24)


def _g_kwargs_passthrough(H, fn, kw):
    if fn == "grouped":
        return prs.pcDelta_grouped(H["df_cluster"], "epitope", "cdr3b", **kw)
    if fn == "cross":
        return prs.pcDelta_grouped_cross(H["df_cluster"], "donor", "cdr3b", **kw)
    if fn == "renyi":
        return prs.renyi2_entropy(H["df_stats"], "a", by="group", **({"group_weights": H["weights_arr"]} if kw else {}))
    if fn == "graph":
        return prs.graph_clustering(H["triplets_arr"], H["nodes_list"], clustering="leiden", **({"objective_function": "modularity", "n_iterations": 3} if kw else {}))
    return prs.powerlaw_mle_alpha(H["counts_arr"], **({"bounds": [1.2, 5.0], "options": {"xatol": 1e-6}} if kw else {}))


grid("pcDelta", "g_kwargs_passthrough", _g_kwargs_passthrough,
     dict(fn=[(x, x) for x in ("grouped", "cross", "renyi", "graph", "mle")],
          kw=[("none", {}), ("bins", {"bins": 6}), ("pseudo", {"pseudocount": 0.5, "bins": 8}), ("raw", {"normalize": False})]), rand=True)


USES = _template_uses()  # (recomputed: templates were added after the first computation above)


# =============================================================================================
# gaps found by a review of every public signature and branch against the catalogue
# =============================================================================================
@heap
def dict_treekw():
    return {"linewidths": 0.5, "colors": "red"}


@heap
def dict_options():
    return {"xatol": 1e-6, "maxiter": 50}


@heap
def dict_annotkw():
    return {"size": 4}


@heap
def bins_list():
    return [0, 1, 2, 3, 5, 8]


@heap
def bounds_arr():
    return np.arange(0, 6, 1)


@heap
def df_gap():
    return pd.DataFrame({"a": ["x_", "x", "x_", "x"], "b": ["y", "_y", "y", "_y"], "group": ["g1", "g1", "g2", "g2"]})


@heap
def df_dirty():
    return pd.DataFrame({"CDR3B": ["cassf", " CASSF ", "CASSF", "CÄSSF"], "Epitope": ["flkekggl", "not-an-epitope", "GILGFVFTL", None],
                         "TRBV": ["trbv7-2", "TRBV7-2 ", "TRBV99", "TRBV7-2*01"], "MHCA": ["hla-a*02", "HLA-A2", "B2M", "H2-Kb"]})


@heap
def df_mouse():
    return pd.DataFrame({"TRBV": ["TRBV13-2*01", "TRBV1"], "TRBJ": ["TRBJ2-7", "TRBJ1-1"], "MHCA": ["H2-Kb", "H2-IAb"],
                         "CDR3B": ["CASSF", "CASGDAGGYEQYF"]})


@heap
def df_tcr_dup():
    df = df_tcr()
    df.index = [1, 1, 2, 2, 3, 3]
    return df


@heap
def df_tcr_multi():
    df = df_tcr()
    df.index = pd.MultiIndex.from_product([["x", "y"], [1, 2, 3]])
    return df


@heap
def seqs_odd():
    return ["CÄSSF", "CÄSF", " CASSF", "CASSF\n", "ＣＡＳ", "cassf"]


@heap
def seqs_long300():
    return ["A" * 300, "A" * 299 + "C", "C" * 300]


@heap
def linkage_arr():
    import scipy.cluster.hierarchy as hc
    from scipy.spatial.distance import squareform

    d = squareform(prs.pdist(seqs_eqlen()).astype(float))
    return hc.linkage(squareform(d))


def _lu(H):
    from scipy.spatial.distance import squareform

    d = squareform(prs.pdist(H["seqs_eqlen"]).astype(float))
    return pd.DataFrame(d), pd.DataFrame(d * 2)


def cb_half(a, b):
    return 0.5 * cb_plain_lev(a, b)


def cb_npfloat(a, b):
    return np.float64(0.5 * cb_plain_lev(a, b))


# 1-6: output types, max_custom_distance and callable distances for every search function and the DB lookups
def _g_out(H, fn, out, mode, seqs2):
    f = getattr(prs, fn)
    kw = dict(output_type=out, custom_distance=mode)
    if callable(mode):
        kw["max_custom_distance"] = 4
    if fn in ("symdel", "nearest_neighbor"):
        kw["seqs2"] = seqs2
        kw["max_edits"] = 2
    return f(H["seqs_arr"] if fn != "symdel" else H["seqs_list"], **kw)


grid("symdel", "g_out", _g_out,
     dict(fn=[(x, x) for x in ("hash_based", "symdel", "nearest_neighbor", "kdtree")], out=[("coo", "coo_matrix"), ("nd", "ndarray")], mode=MODES,
          seqs2=[("none", None), ("l2", "H:seqs_list2"), ("tuple", "H:seqs_tuple")]), cap=20)


def _g_db_out(H, db, out, mode, queries):
    return H[db].lookup(queries, output_type=out, custom_distance=mode)


grid("db", "g_db_out", _g_db_out,
     dict(db=[("symdel", "symdel_db"), ("lookup", "lookup_db")], out=[("coo", "coo_matrix"), ("nd", "ndarray")],
          mode=[("lev", None), ("ham", "hamming")], queries=[("arr", "H:seqs_arr"), ("empty", []), ("q", ["CAAF", "CCCC", "CAAA"])]), cap=14)


@op("db", post=sorted_list)
def lookupdb_pdist_mode(H):
    return [sorted(H["lookup_db"].lookup(H["db_ref_list2"], pdist_mode=True)), sorted(H["lookup_db"].lookup(H["db_ref_list2"])),
            sorted(H["lookup_db"].lookup(H["db_ref_list2"], pdist_mode=True, custom_distance="hamming"))]


def _g_mcd(H, fn, mode, mcd):
    if fn == "lookupdb":
        return sorted(H["lookup_db"].lookup(H["seqs_arr"], custom_distance=mode, max_custom_distance=mcd))
    if fn == "symdeldb":
        return sorted(H["symdel_db"].lookup(H["seqs_arr"], custom_distance=mode, max_custom_distance=mcd))
    return sorted(getattr(prs, fn)(H["seqs_arr"], custom_distance=mode, max_custom_distance=mcd))


grid("symdel", "g_mcd", _g_mcd,
     dict(fn=[(x, x) for x in ("hash_based", "symdel", "kdtree", "lookupdb", "symdeldb")], mode=[("lev", None), ("ham", "hamming")],
          mcd=[("0", 0), ("1", 1), ("f", 1.5)]), cap=16)


def _g_cb_inf(H, fn, cbk):
    f = {"half": cb_half, "npf": cb_npfloat, "lev2": None}[cbk]
    cb = f if f is not None else cb_lev2
    if fn == "lookupdb":
        return sorted(H["lookup_db"].lookup(H["seqs_arr"], custom_distance=cb))
    if fn == "symdeldb":
        return sorted(H["symdel_db"].lookup(H["seqs_arr"], custom_distance=cb))
    if fn == "nn2":
        return sorted(prs.nearest_neighbor(H["seqs_arr"], max_edits=2, custom_distance=cb, seqs2=H["seqs_list2"]))
    if fn == "kdtree_nd":
        return prs.kdtree(H["seqs_arr"], max_edits=2, custom_distance=cb, max_custom_distance=0.5, output_type="ndarray")
    return sorted(getattr(prs, fn)(H["seqs_list"], max_edits=2 if fn != "hash_based" else 1, custom_distance=cb))


grid("symdel", "g_cb_inf", _g_cb_inf,
     dict(fn=[(x, x) for x in ("symdel", "hash_based", "kdtree", "nn2", "lookupdb", "symdeldb", "kdtree_nd")],
          cbk=[("lev2", "lev2"), ("half", "half"), ("npf", "npf")]))


# 7-13: plotting options never passed
def _g_rankfreq_y(H, kw):
    import matplotlib.pyplot as plt

    fig, ax = plt.subplots()
    kw = dict(kw)
    for k_ in ("transform_x", "transform_y"):
        if kw.get(k_):
            kw[k_] = cb_log
    return pp.rankfrequency(H["counts_arr"], ax=ax, **kw)


grid("rankfreq", "g_rankfreq_y", _g_rankfreq_y,
     dict(kw=[("ty", {"transform_y": True, "scaley": 3.0}), ("sy", {"scaley": 0.5}), ("txy", {"transform_x": True, "transform_y": True, "normalize_y": True}),
              ("drawstyle", {"where": "mid", "lw": 2.0})]))


@op("logos", slow=True)
def seqlogos_vj_axes(H):
    import matplotlib.pyplot as plt

    fig, axes = plt.subplots(ncols=3)
    return pp.seqlogos_vj(H["df_vj"], "cdr3", "v", "j", axes=axes)


@op("logos", slow=True)
def seqlogos_vj_two_axes(H):
    import matplotlib.pyplot as plt

    fig, axes = plt.subplots(ncols=2)
    return pp.seqlogos_vj(H["df_vj"], "cdr3", "v", "j", axes=axes)


@op("density")
def density_other_figure(H):
    import matplotlib.pyplot as plt

    f1, a1 = plt.subplots()
    f2, a2 = plt.subplots()
    pp.density_scatter(H["xy_points"][0], H["xy_points"][1], ax=a1, cbar=True, bins=[5, 4])
    return [f1, f2]


def _g_density_kw(H, kw):
    import matplotlib.pyplot as plt

    fig, ax = plt.subplots()
    kw = dict(kw)
    disc = kw.pop("_disc", False)
    if kw.get("trans"):
        kw["trans"] = cb_log
    d = H["xy_discrete"] if disc else H["xy_points"] + (11.0 if kw.get("trans") else 0.0)
    return pp.density_scatter(d[0], d[1], ax=ax, discrete=disc, **kw)


grid("density", "g_density_kw", _g_density_kw,
     dict(kw=[("trans_sort", {"trans": True, "sort": True, "bins": 5, "cbar": True}), ("disc_trans", {"_disc": True, "trans": True}),
              ("scatterkw", {"cmap": "magma", "vmin": 0, "alpha": 0.5, "marker": "s"}), ("dup_c", {"c": "red"})]))


@op("legend")
def legend_handler_vertical(H):
    import matplotlib.pyplot as plt

    fig, ax = plt.subplots()
    (l1,) = ax.plot([0, 1], [0, 1], "-", color="C0")
    (l2,) = ax.plot([0, 1], [1, 0], "--", color="C1")
    leg = ax.legend([(l1, l2)], ["pair"], handler_map={tuple: pp.HandlerTupleOffset(horizontal=False, pad=0.2)})
    fig.canvas.draw()
    return [fig, [t.get_text() for t in leg.get_texts()]]


def _g_label_axes2(H, form):
    import matplotlib.pyplot as plt

    if form == "none":
        fig, axes = plt.subplots(ncols=2)
        pp.label_axes(fig, labels=None)
    elif form == "flat":
        fig, axes = plt.subplots(2, 2)
        pp.label_axes(axes.flat, xycoords="figure fraction", xy=(0.5, 0.5), fontweight="normal", va="bottom", fontsize=7)
    elif form == "grid2d":
        fig, axes = plt.subplots(2, 2)
        pp.label_axes(axes)
    elif form == "iter":
        fig, axes = plt.subplots(ncols=3)
        pp.label_axes(fig, labels=iter("xyz"))
    else:  # labels that are formatted through numpy's print options
        fig, axes = plt.subplots(ncols=2)
        pp.label_axes(fig, labels=[np.array([0.123456789, 1.0]), np.arange(3) / 3])
    return fig


grid("labelaxes", "g_label_axes2", _g_label_axes2, dict(form=[(x, x) for x in ("none", "flat", "grid2d", "iter", "arrays")]))


# 14-20: clustermap family
def _g_cms(H, kw):
    L, U = _lu(H)
    kw = dict(kw)
    if kw.get("mask") is True:
        kw["mask"] = pd.DataFrame(np.eye(6, dtype=bool))
    if kw.get("tree_kws") == "H":
        kw["tree_kws"] = H["dict_treekw"]
    if kw.get("annot_kws") == "H":
        kw["annot_kws"] = H["dict_annotkw"]
    if kw.get("row_linkage") == "H":
        kw["row_linkage"] = H["linkage_arr"]
        kw["col_linkage"] = H["linkage_arr"]
    return pp.clustermap_split(L, U, figsize=(3, 3), **kw)


grid("clustermap", "g_cms", _g_cms,
     dict(kw=[("z", {"z_score": 0}), ("std", {"standard_scale": 1}), ("mask", {"mask": True}), ("tree", {"tree_kws": "H"}),
              ("colors", {"row_colors": list("rgbrgb"), "col_colors": pd.Series(list("rgbrgb")), "colors_ratio": 0.1, "dendrogram_ratio": (0.1, 0.3)}),
              ("heat", {"vmin": 0, "vmax": 3, "cmap": "mako", "annot": True, "fmt": ".1f", "annot_kws": "H"}), ("nocol", {"col_cluster": False}),
              ("method", {"method": "single", "metric": "cityblock"}), ("linkage", {"row_linkage": "H"})]), slow=True)


@op("clustermap", slow=True)
def clustermap_split_arrays(H):
    L, U = _lu(H)
    return pp.clustermap_split(L.to_numpy(), U.to_numpy(), figsize=(3, 3))


def _g_scm(H, kw):
    kw = dict(kw)
    df = H[kw.pop("_df", "df_cluster")]
    if kw.get("bounds") == "H":
        kw["bounds"] = H["bounds_arr"]
    if kw.get("meta_columns") == "H":
        kw["meta_columns"] = H["list_meta"]
    if kw.get("tree_kws") == "H":
        kw["tree_kws"] = H["dict_treekw"]
    mt = kw.get("meta_to_colors")
    if mt == "tab":
        kw["meta_to_colors"] = [pp.labels_to_colors_tableau]
    elif mt == "short":
        kw["meta_to_colors"] = [pp.labels_to_colors_hls]
    return pp.similarity_clustermap(df, **kw)


grid("clustermap", "g_scm", _g_scm,
     dict(kw=[("tcr_ab", {"_df": "df_tcr", "alpha_column": "CDR3A", "beta_column": "CDR3B"}), ("tcr_b", {"_df": "df_tcr", "alpha_column": None, "beta_column": "CDR3B"}),
              ("tcr_a", {"_df": "df_tcr", "alpha_column": "CDR3A", "beta_column": None}), ("bounds_arr", {"bounds": "H"}), ("bounds_list", {"bounds": [0, 1, 2, 3, 4]}),
              ("bounds_tuple", {"bounds": (0, 2, 4, 8)}), ("meta_empty", {"meta_columns": []}), ("meta_tuple", {"meta_columns": ("epitope",)}),
              ("meta_str", {"meta_columns": "epitope"}), ("mappers_only", {"meta_to_colors": "tab"}), ("mappers_short", {"meta_columns": "H", "meta_to_colors": "short"}),
              ("nan_meta", {"_df": "df_cluster_nan", "meta_columns": ["epitope"]}), ("nan_seq", {"_df": "df_cluster_nan_seq"}), ("cmap_dup", {"cmap": "mako"}),
              ("late_attr", {"cbar_pos": None, "xticklabels": True, "annot": True, "dendrogram_ratio": 0.2}),
              ("heatkw", {"yticklabels": list("abcdefgh"), "rasterized": False, "tree_kws": "H", "vmax": 4}),
              ("none_dicts", {"cbar_kws": None}), ("empty_dicts", {"cbar_kws": {}, "linkage_kws": {}, "cluster_kws": {"t": 2}})]), rand=True, slow=True)


def _g_drawn(H, what):
    import matplotlib.pyplot as plt

    if what == "clustermap":
        cg, _, _ = pp.similarity_clustermap(H["df_cluster"])
        cg.fig.canvas.draw()
        return cg
    fig, ax = plt.subplots()
    if what == "rankfreq":
        pp.rankfrequency(H["counts_arr"], ax=ax)
    elif what == "density":
        pp.density_scatter(H["xy_points"][0], H["xy_points"][1], ax=ax, cbar=True, bins=5)
    else:
        fig, axes = plt.subplots(ncols=3)
        pp.seqlogos_vj(H["df_vj"], "cdr3", "v", "j", axes=axes)
    fig.canvas.draw()
    return fig


grid("clustermap", "g_drawn", _g_drawn, dict(what=[(x, x) for x in ("clustermap", "rankfreq", "density", "vj")]), rand=True, slow=True)


# 21-26: pcDelta family
def _g_pcdelta_maxseqs(H, which):
    if which == "two":
        return prs.pcDelta(H["seqs_list"], H["seqs_list2"], maxseqs=3, bins=H["bins_arr"])
    if which == "tbl":
        return prs.pcDelta(H["df_tcr"], maxseqs=4, bins=H["bins_arr"])
    if which == "tbl2":
        return prs.pcDelta(H["df_tcr"], H["df_tcr2"], maxseqs=2)
    if which == "tuple":
        return prs.pcDelta((H["seqs_eqlen"], H["seqs_eqlen"]), maxseqs=4)
    if which == "grouped":
        return prs.pcDelta_grouped(H["df_cluster"], "epitope", "cdr3b", bins=H["bins_arr"], maxseqs=2)
    return prs.pcDelta_grouped_cross(H["df_cluster"], "donor", "cdr3a", condensed=True, bins=H["bins_arr"], maxseqs=3)


grid("pcDelta", "g_pcdelta_maxseqs", _g_pcdelta_maxseqs, dict(which=[(x, x) for x in ("two", "tbl", "tbl2", "tuple", "grouped", "cross")]), rand=True)


def _g_pcdelta_misc(H, which):
    if which == "grouped_metric":
        return prs.pcDelta_grouped(H["df_cluster"], "epitope", "cdr3b", bins=H["bins_arr"], metric=H["metric_wlev"])
    if which == "cross_metric":
        return prs.pcDelta_grouped_cross(H["df_cluster"], "donor", "cdr3b", bins=0, metric=H["metric_lev"])
    if which == "by_func":
        return prs.pcDelta_grouped(H["df_cluster"], lambda i: i % 2, "cdr3b", bins=H["bins_arr"])
    if which == "by_series":
        return prs.pc_grouped_cross(H["df_cluster"], H["df_cluster"]["donor"], "cdr3b")
    if which == "cat_group":
        return prs.pcDelta_grouped(H["df_categorical"], "a", "group", bins=H["bins_arr"])
    if which == "cat_cross":
        return prs.pcDelta_grouped_cross(H["df_categorical"], "a", "group", bins=0)
    if which == "cat_cond":
        return prs.pc_conditional(H["df_categorical"], "a", "b")
    if which == "bins_npint":
        return prs.pcDelta_grouped(H["df_cluster"], "epitope", "cdr3b", bins=np.int64(6))
    if which == "bins_np0":
        return prs.pcDelta(H["seqs_list"], bins=np.int64(0))
    if which == "bins_auto":
        return prs.pcDelta(H["seqs_list"], bins="auto")
    if which == "bins_false":
        return prs.pcDelta(H["seqs_list"], bins=False)
    if which == "bins_series":
        return prs.pcDelta(H["seqs_list"], bins=pd.Series(range(6)))
    if which == "bins_list":
        return prs.pcDelta(H["seqs_list"], bins=H["bins_list"])
    if which == "tbl_bins0":
        return [prs.pcDelta(H["df_tcr"], bins=0), prs.pcDelta(H["df_tcr"], H["df_tcr2"], bins=0, metric=H["metric_beta"])]
    if which == "beta_default":
        return [prs.pcDelta(H["df_beta"], bins=H["bins_arr"]), prs.hierarchical_clustering(H["df_beta"])]
    if which == "stats_default":
        return prs.pcDelta(H["df_stats"], bins=H["bins_arr"])
    return prs.pcDelta(H["df_tcr"], H["seqs_list"])


grid("pcDelta", "g_pcdelta_misc", _g_pcdelta_misc,
     dict(which=[(x, x) for x in ("grouped_metric", "cross_metric", "by_func", "by_series", "cat_group", "cat_cross", "cat_cond", "bins_npint", "bins_np0",
                                  "bins_auto", "bins_false", "bins_series", "bins_list", "tbl_bins0", "beta_default", "stats_default", "mixed")]))


def _g_gap(H, which):
    d = H["df_gap"]
    if which == "pcj":
        return [prs.pc_joint(d, ["a", "b"]), prs.pc_joint(d, ["a", "b"], gap_token="|"), prs.pc_joint(d, ["a", "b"], d, gap_token="")]
    if which == "std":
        return [prs.stdpc_joint(d, ["a", "b"]), prs.stdpc_joint(d, ["a", "b"], gap_token="|")]
    return [prs.stdrenyi2_entropy(d, ["a", "b"], gap_token="|"), prs.stdrenyi2_entropy(d, ["a", "b"]), prs.renyi2_entropy(d, ["a", "b"])]


grid("pc", "g_gap", _g_gap, dict(which=[(x, x) for x in ("pcj", "std", "renyi")]))


# 27-29: neighbours / graph
def _g_nnn(H, maxdistance):
    return sorted(prs.next_nearest_neighbors("CAD", cb_hamming_nb, maxdistance=maxdistance))


grid("neighbors", "g_nnn", _g_nnn, dict(maxdistance=[("0", 0), ("1", 1), ("3", 3)]))


def _g_graph2(H, which):
    t, nodes = H["triplets_arr"], H["nodes_list"]
    if which == "walktrap":
        return prs.graph_clustering(t, nodes, clustering="walktrap", steps=3)
    if which == "label_propagation":
        return prs.graph_clustering(t, nodes, clustering="label_propagation")["cluster"].nunique()
    if which == "infomap":
        return prs.graph_clustering(t, nodes, clustering="infomap", trials=3)
    if which == "edge_betweenness":
        return prs.graph_clustering(t, nodes, clustering="edge_betweenness")
    if which == "levels":
        return prs.graph_clustering(t, nodes, clustering="multilevel", return_levels=True)
    if which == "leiden_weights":
        return prs.graph_clustering(t, nodes, clustering="leiden", weights=[1.0 + (i % 3) for i in range(len(t))])
    if which == "leiden_res":
        return prs.graph_clustering(t, nodes, clustering="leiden", resolution=0.5, n_iterations=-1)
    if which == "float":
        return prs.graph_clustering(t.astype(float), nodes)
    if which == "frame":
        return prs.graph_clustering(pd.DataFrame(t), nodes)
    if which == "from_kdtree":
        return prs.graph_clustering(prs.kdtree(H["seqs_list"]), H["seqs_list"])
    if which == "from_coo":
        return prs.graph_clustering(prs.symdel(H["seqs_arr"], output_type="coo_matrix"), H["seqs_arr"])
    if which == "empty":
        return prs.graph_clustering([], nodes)
    return prs.graph_clustering(t[:2], nodes, clustering="DBSCAN")


grid("graph", "g_graph2", _g_graph2,
     dict(which=[(x, x) for x in ("walktrap", "label_propagation", "infomap", "edge_betweenness", "levels", "leiden_weights", "leiden_res", "float", "frame",
                                  "from_kdtree", "from_coo", "empty", "dbscan2")]), rand=True)


# 30-33: standardize_dataframe, index kinds
def _g_std2(H, which):
    if which == "dirty":
        return prs.standardize_dataframe(H["df_dirty"], suppress_warnings=True)
    if which == "dirty_strict":
        return prs.standardize_dataframe(H["df_dirty"], strict_cdr3_standardization=True, suppress_warnings=True)
    if which == "dirty_warn":
        return prs.standardize_dataframe(H["df_dirty"])
    if which == "dirty_int":
        d = H["df_dirty"].astype(object)
        d.iloc[3, 0] = 12
        return prs.standardize_dataframe(d, suppress_warnings=True)
    if which == "mouse":
        return prs.standardize_dataframe(H["df_mouse"], species="MusMusculus", tcr_precision="allele", suppress_warnings=True)
    if which == "object_na":
        d = H["df_raw"].astype(object)
        d.iloc[0, 1] = pd.NA
        return prs.standardize_dataframe(d, suppress_warnings=True)
    if which == "category":
        d = H["df_raw"].copy()
        d["TRBV"] = d["TRBV"].astype("category")
        return prs.standardize_dataframe(d, suppress_warnings=True)
    if which == "empty":
        return prs.standardize_dataframe(H["df_raw"].iloc[:0], suppress_warnings=True)
    if which == "mapper_callable":
        d = H["df_raw_misnamed"].rename(columns={"foo": "trbv", "bar": "cdr3b", "baz": "trbj"})
        return prs.standardize_dataframe(d, col_mapper=str.upper, suppress_warnings=True)
    if which == "mapper_proxy":
        import types

        return prs.standardize_dataframe(H["df_raw_misnamed"], col_mapper=types.MappingProxyType(H["dict_colmapper"]), suppress_warnings=True)
    if which == "bad_precision":
        return prs.standardize_dataframe(H["df_raw"], tcr_precision="exon", suppress_warnings=True)
    s_ = prs.standardize_dataframe(H["df_raw"], suppress_warnings=True)
    if which == "then_cdrall":
        return H["metric_cdrall"].calc_pdist_vector(s_)
    if which == "then_cdr3":
        return H["metric_cdr3"].calc_pdist_vector(s_)
    return prs.pcDelta(s_[["TRBV", "CDR3B"]].dropna(), bins=H["bins_arr"])


grid("standardize", "g_std2", _g_std2,
     dict(which=[(x, x) for x in ("dirty", "dirty_strict", "dirty_warn", "dirty_int", "mouse", "object_na", "category", "empty", "mapper_callable", "mapper_proxy",
                                  "bad_precision", "then_cdrall", "then_cdr3", "then_pcdelta")]))


def _g_index_kinds(H, df, fn):
    X = H[df]
    if fn == "cdrall":
        return H["metric_cdrall"].calc_pdist_vector(X)
    if fn == "downsample":
        return prs.downsample(X, 3)
    if fn == "pcDelta":
        return prs.pcDelta(X, maxseqs=4)
    if fn == "hclust":
        return prs.hierarchical_clustering(X)
    return prs.nearest_neighbor_tcrdist(X)


grid("metric", "g_index_kinds", _g_index_kinds,
     dict(df=[("dup", "df_tcr_dup"), ("multi", "df_tcr_multi")], fn=[(x, x) for x in ("cdrall", "downsample", "pcDelta", "hclust", "tcrdist")]), rand=True, io=True)


# 34: metric constructor values of other types
def _g_metric_ctor(H, which):
    from pyrepseq.metric import WeightedLevenshtein

    if which == "alpha_half":
        return tm.Cdr3Levenshtein(alpha_weight=0.5).calc_pdist_vector(H["df_tcr"])
    if which == "cdr1_zero":
        return tm.CdrLevenshtein(cdr1_weight=0).calc_cdist_matrix(H["df_tcr"], H["df_tcr2"])
    if which == "ins_float":
        return WeightedLevenshtein(insertion_weight=1.5).calc_pdist_vector(H["seqs_arr"])
    if which == "np_ints":
        return WeightedLevenshtein(np.int64(2), np.int64(2), np.int64(1)).calc_pdist_vector(H["seqs_arr"])
    return WeightedLevenshtein(1.0, 1.0, 1.0).calc_pdist_vector(H["seqs_arr"])


grid("metric", "g_metric_ctor", _g_metric_ctor, dict(which=[(x, x) for x in ("alpha_half", "cdr1_zero", "ins_float", "np_ints", "ones_float")]))


# 35: empty and single-element inputs
def _g_empty(H, which):
    calls = {
        "lev_pdist": lambda: H["metric_lev"].calc_pdist_vector([]),
        "lev_cdist": lambda: H["metric_lev"].calc_cdist_matrix(H["seqs_arr"], []),
        "pdist": lambda: prs.pdist([]),
        "cdist": lambda: prs.cdist([], H["seqs_list2"]),
        "pcDelta": lambda: prs.pcDelta([], bins=H["bins_arr"]),
        "hclust": lambda: prs.hierarchical_clustering([]),
        "kdtree1": lambda: prs.kdtree(["CAAA"]),
        "symdel1": lambda: prs.symdel(["CAAA"], output_type="ndarray"),
        "pairs": lambda: prs.find_neighbor_pairs([]),
        "numbers": lambda: prs.calculate_neighbor_numbers([]),
        "pc": lambda: prs.pc([]),
        "subsample": lambda: prs.subsample([], 0),
        "colors": lambda: pp.labels_to_colors_hls([]),
        "regex1": lambda: prs.seqs_to_regex(["CASSF"], align=False),
    }
    return calls[which]()


grid("validation", "g_empty", _g_empty,
     dict(which=[(x, x) for x in ("lev_pdist", "lev_cdist", "pdist", "cdist", "pcDelta", "hclust", "kdtree1", "symdel1", "pairs", "numbers", "pc", "subsample",
                                  "colors", "regex1")]), rand=True)


@op("kdtree", pool=True)
def kdtree_single_ncpu2(H):
    return prs.kdtree(["CAAA"], n_cpu=2)


# 36-42: search functions, remaining argument forms
def _g_search_misc(H, which):
    calls = {
        "hash_k2": lambda: sorted(prs.hash_based(H["seqs_short"], max_edits=2)),
        "hash_k2_ham": lambda: sorted(prs.hash_based(H["seqs_short"], max_edits=2, custom_distance="hamming")),
        "hash_ignored": lambda: sorted(prs.hash_based(H["seqs_arr"], max_returns=1, n_cpu=3, progress=True)),
        "lookupdb_series": lambda: [sorted(prs.LookupDB(H["seqs_series"]).seq_dict.items()), sorted(prs.LookupDB(H["seqs_series"]).lookup(H["seqs_arr"]))],
        "lookupdb_tuple": lambda: sorted(prs.LookupDB(H["seqs_tuple"]).lookup(H["seqs_arr"])),
        "lookupdb_ro": lambda: sorted(prs.LookupDB(H["seqs_readonly"]).lookup(H["seqs_arr"])),
        "lookupdb_iter": lambda: sorted(prs.LookupDB(iter(H["seqs_tuple"])).lookup(H["seqs_arr"])),
        "symdeldb_named": lambda: sorted(prs.SymdelDB(H["seqs_named_series"], 1).lookup(["CAAA"])),
        "symdeldb_k0": lambda: sorted(prs.SymdelDB(H["seqs_arr"], 0).lookup(H["seqs_arr"])),
        "lookupdb_k0": lambda: sorted(H["lookup_db"].lookup(H["seqs_arr"], max_edits=0)),
        "symdeldb_progress": lambda: sorted(H["symdel_db"].lookup(H["seqs_arr"], progress=True)),
        "symdel_progress_noseqs2": lambda: sorted(prs.symdel(H["seqs_list"], progress=True)),
        "lookupdb_progress": lambda: sorted(H["lookup_db"].lookup(H["seqs_arr"], progress=True)),
        "symdeldb_progress_iter": lambda: sorted(H["symdel_db"].lookup(iter(["CAAA"]), progress=True)),
        "kdtree_c20": lambda: sorted(prs.kdtree(H["seqs_list"], max_edits=2, compression=20)),
        "kdtree_c7": lambda: sorted(prs.kdtree(H["seqs_list"], max_edits=2, compression=7)),
        "kdtree_c2_5": lambda: sorted(prs.kdtree(H["seqs_list"], max_edits=2, compression=2.5)),
        "kdtree_c0": lambda: sorted(prs.kdtree(H["seqs_list"], max_edits=2, compression=0)),
        "kdtree_ham_coo": lambda: prs.kdtree(H["seqs_arr"], custom_distance="hamming", output_type="coo_matrix"),
        "kdtree_cb_coo": lambda: prs.kdtree(H["seqs_arr"], max_edits=2, custom_distance=cb_lev2, max_custom_distance=4, output_type="coo_matrix", max_returns=1),
        "nn_positional": lambda: prs.nearest_neighbor(H["seqs_arr"], 2, None, 1, "hamming", 1.0, "ndarray", H["seqs_tuple"]),
        "symdel_set": lambda: prs.symdel(H["seqs_set"]),
        "symdel_ignored": lambda: sorted(prs.symdel(H["seqs_list"], max_returns=1, n_cpu=4)),
        "symdel_empty_seqs2": lambda: sorted(prs.symdel(H["seqs_list"], seqs2=[])),
        "symdel_same_object": lambda: sorted(prs.symdel(H["seqs_arr"], seqs2=H["seqs_arr"])),
        "symdel_series_both": lambda: sorted(prs.symdel(H["seqs_series_b"], seqs2=H["seqs_series_b"])),
        "odd_symdel": lambda: sorted(prs.symdel(H["seqs_odd"])),
        "odd_hash": lambda: sorted(prs.hash_based(H["seqs_odd"])),
        "odd_kdtree": lambda: sorted(prs.kdtree(H["seqs_odd"])),
        "odd_metric": lambda: [H["metric_lev"].calc_pdist_vector(H["seqs_odd"]), H["metric_wlev"].calc_cdist_matrix(H["seqs_odd"], H["seqs_odd"])],
        "odd_db": lambda: [sorted(H["lookup_db"].lookup(H["seqs_odd"])), sorted(H["symdel_db"].lookup(H["seqs_odd"]))],
        "long_symdel": lambda: sorted(prs.symdel(H["seqs_long300"])),
        "long_kdtree": lambda: sorted(prs.kdtree(H["seqs_long300"])),
        "long_metric": lambda: [H["metric_lev"].calc_pdist_vector(H["seqs_long300"]), H["metric_wlev"].calc_cdist_matrix(H["seqs_long300"], H["seqs_long300"])],
        "long_db": lambda: sorted(H["symdel_db"].lookup(H["seqs_long300"])),
    }
    return calls[which]()


grid("symdel", "g_search_misc", _g_search_misc, dict(which=[(x, x) for x in (
    "hash_k2", "hash_k2_ham", "hash_ignored", "lookupdb_series", "lookupdb_tuple", "lookupdb_ro", "lookupdb_iter", "symdeldb_named", "symdeldb_k0",
    "lookupdb_k0", "symdeldb_progress", "symdel_progress_noseqs2", "lookupdb_progress", "symdeldb_progress_iter", "kdtree_c20", "kdtree_c7", "kdtree_c2_5",
    "kdtree_c0", "kdtree_ham_coo", "kdtree_cb_coo", "nn_positional", "symdel_set", "symdel_ignored", "symdel_empty_seqs2", "symdel_same_object",
    "symdel_series_both", "odd_symdel", "odd_hash", "odd_kdtree", "odd_metric", "odd_db", "long_symdel", "long_kdtree", "long_metric", "long_db")]), cap=60)


# 43-52: statistics, option forms
def _g_stats_misc(H, which):
    d = H["df_stats"]
    calls = {
        "on_ndarray": lambda: prs.pc_grouped_cross(d, "group", np.array(["a", "b"])),
        "on_index": lambda: prs.pc_conditional(d, "group", pd.Index(["a", "b"])),
        "on_tuple": lambda: prs.pc_conditional(d, "group", ("a", "b")),
        "by_tuple": lambda: prs.pc_conditional(d, ("group",), "a"),
        "by_ndarray": lambda: prs.pc_conditional(d, np.array(["group"]), "a"),
        "features_tuple": lambda: prs.renyi2_entropy(d, ("a", "b")),
        "by_empty": lambda: prs.renyi2_entropy(d, "a", by=[]),
        "pc_joint_str": lambda: prs.pc_joint(d, "a"),
        "base1": lambda: prs.renyi2_entropy(d, "a", base=1),
        "base_np": lambda: [prs.renyi2_entropy(d, "a", base=np.float64(2)), prs.renyi2_entropy(d, "a", base=True)],
        "weights_ignored": lambda: prs.renyi2_entropy(d, "a", group_weights=H["weights_arr"]),
        "gap_ignored": lambda: prs.stdrenyi2_entropy(d, "a", gap_token="|"),
        "std_badkw": lambda: prs.stdrenyi2_entropy(d, ["a", "b"], no_such=1),
        "chao_series": lambda: prs.chao1(H["counts_series"]),
        "jaccard_empty": lambda: prs.jaccard_index([], []),
        "varpc_list": lambda: prs.varpc_n(H["counts_list"]),
        "numbers_listref": lambda: prs.calculate_neighbor_numbers(H["seqs_arr"], reference=H["ref_list"]),
        "isdist1_series": lambda: prs.isdist1("CAAF", H["seqs_series"]),
        "downsample_set": lambda: prs.downsample(H["seqs_set"], 3),
        "downsample_neg": lambda: prs.downsample(H["seqs_list"], -1),
        "subsample_float_counts": lambda: prs.subsample(np.array([1.5, 2.0]), 2),
        "regex_unequal": lambda: prs.seqs_to_regex(H["seqs_list"], align=False),
        "pl_alpha1": lambda: prs.powerlaw_sample(size=3.0, xmin=1, alpha=np.float64(1.0)),
        "pl_xmin_small": lambda: prs.powerlaw_sample(size=4, xmin=0.2, alpha=1.5),
        "pl_zero": lambda: prs.powerlaw_sample(0),
        "mle_cmin_half": lambda: prs.powerlaw_mle_alpha(H["counts_arr"], cmin=0.5, method="continuitycorrection"),
        "mle_cmin0": lambda: prs.powerlaw_mle_alpha(H["counts_arr"], cmin=0, method="simple"),
        "mle_series_tol": lambda: prs.powerlaw_mle_alpha(H["counts_series"], tol=1e-3),
        "mle_cmin50": lambda: prs.powerlaw_mle_alpha(H["counts_arr"], cmin=50),
        "mle_heap_options": lambda: prs.powerlaw_mle_alpha(H["counts_arr"], options=H["dict_options"], bounds=H["list_bounds"]),
        "tuple_strings": lambda: [prs.pc(("CAAA", "CADA")), prs.pcDelta(("CAAA", "CADA"), bins=H["bins_arr"])],
        "tuple_hclust": lambda: prs.hierarchical_clustering(("CAAAA", "CADAA")),
        "tuple_unequal": lambda: prs.pc((H["seqs_eqlen"], H["seqs_eqlen"][:3])),
        "tuple_series": lambda: prs.pc((H["seqs_series"], H["seqs_series_b"])),
        "tuple3": lambda: prs.pc(tuple(H["seqs_tuple"][:3])),
        "np_scalars": lambda: [prs.downsample(H["seqs_list"], np.int64(3)) is not None, prs.nndist_hamming("CADD", H["ref_set"], maxdist=np.int64(2)),
                               sorted(prs.hamming_neighbors("CADK", "AC", variable_positions=np.array([1, 3])))],
        "kdtree_np_edits": lambda: prs.kdtree(H["seqs_list"], max_edits=np.int64(1)),
        "kdtree_np_ncpu": lambda: prs.kdtree(H["seqs_list"], n_cpu=np.int64(1)),
        "kdtree_np_returns": lambda: prs.kdtree(H["seqs_list"], max_returns=np.int64(2)),
        "kdtree_np_mcd": lambda: prs.kdtree(H["seqs_list"], custom_distance="hamming", max_custom_distance=np.float64(2.0)),
        "kdtree_bool_edits": lambda: prs.kdtree(H["seqs_list"], max_edits=True),
    }
    return calls[which]()


grid("pc", "g_stats_misc", _g_stats_misc, dict(which=[(x, x) for x in (
    "on_ndarray", "on_index", "on_tuple", "by_tuple", "by_ndarray", "features_tuple", "by_empty", "pc_joint_str", "base1", "base_np", "weights_ignored", "gap_ignored",
    "std_badkw", "chao_series", "jaccard_empty", "varpc_list", "numbers_listref", "isdist1_series", "downsample_set", "downsample_neg", "subsample_float_counts",
    "regex_unequal", "pl_alpha1", "pl_xmin_small", "pl_zero", "mle_cmin_half", "mle_cmin0", "mle_series_tol", "mle_cmin50", "mle_heap_options", "tuple_strings",
    "tuple_hclust", "tuple_unequal", "tuple_series", "tuple3", "np_scalars", "kdtree_np_edits", "kdtree_np_ncpu", "kdtree_np_returns", "kdtree_np_mcd",
    "kdtree_bool_edits")]), cap=60, rand=True)


# 45-46: multimerge forms, explicit None / {} for dict-typed options
def _g_merge2(H, which):
    L = H["dfs_list"]
    calls = {
        "on_list": lambda: prs.multimerge(L[:2], ["key", "v"], suffixes=["L", "R"]),
        "single": lambda: prs.multimerge(L[:1], "key"),
        "short_suffixes": lambda: prs.multimerge(L, "key", suffixes=["L"]),
        "tuple_suffixes": lambda: prs.multimerge(L, "key", suffixes=("a", "b", "c")),
        "array_suffixes": lambda: prs.multimerge(L, "key", suffixes=np.array(["L", "R", "Z"])),
        "generator": lambda: prs.multimerge((d for d in L), "key", suffixes=H["suffixes_list"], sort=True),
        "dup_kw": lambda: prs.multimerge(H["dfs_indexed"], "index", left_index=True),
        "indicator": lambda: prs.multimerge(H["dfs_indexed"], "index", indicator=True, validate="one_to_one"),
    }
    return calls[which]()


grid("multimerge", "g_merge2", _g_merge2, dict(which=[(x, x) for x in ("on_list", "single", "short_suffixes", "tuple_suffixes", "array_suffixes", "generator",
                                                                      "dup_kw", "indicator")]))


def _g_none_dicts(H, which):
    calls = {
        "hclust_none": lambda: prs.hierarchical_clustering(H["seqs_list"], linkage_kws=None),
        "hclust_empty_link": lambda: prs.hierarchical_clustering(H["seqs_list"], linkage_kws={}),
        "hclust_empty_cluster": lambda: prs.hierarchical_clustering(H["seqs_list"], cluster_kws={}),
        "hls_none": lambda: pp.labels_to_colors_hls(H["many_labels"], palette_kws=None),
        "hls_empty": lambda: pp.labels_to_colors_hls(H["many_labels"], palette_kws={}),
        "hls_h": lambda: pp.labels_to_colors_hls(H["many_labels"], palette_kws={"h": 0.5}),
        "hls_cmap": lambda: pp.labels_to_colors_hls(H["many_labels"], palette_kws={"as_cmap": True}),
        "hls_min0": lambda: pp.labels_to_colors_hls(H["many_labels"], min_count=0),
        "hls_min100": lambda: pp.labels_to_colors_hls(H["many_labels"], min_count=100),
        "tab_nan": lambda: pp.labels_to_colors_tableau(H["df_cluster_nan"]["donor"]),
        "hls_categorical": lambda: pp.labels_to_colors_hls(pd.Categorical(H["many_labels"])),
        "tab_2d": lambda: pp.labels_to_colors_tableau(np.array([[1, 2], [1, 3]])),
        "hls_bool": lambda: pp.labels_to_colors_hls([True, False, True]),
        "tcrdist_none": lambda: prs.nearest_neighbor_tcrdist(H["df_beta"], tcrdist_kwargs=None),
        "tcrdist_empty": lambda: prs.nearest_neighbor_tcrdist(H["df_beta"], tcrdist_kwargs={}),
        "tcrdist_kwargs_fwd": lambda: prs.nearest_neighbor_tcrdist(H["df_beta"], custom_distance="hamming", max_returns=1),
        "tcrdist_coo": lambda: prs.nearest_neighbor_tcrdist(H["df_beta"], output_type="coo_matrix"),
        "tcrdist_no_neighbors": lambda: prs.nearest_neighbor_tcrdist(H["df_beta"].iloc[[0, 3]]),
        "tcrdist_no_v": lambda: prs.nearest_neighbor_tcrdist(H["df_beta"][["CDR3B"]]),
        "tcrdist_gamma": lambda: prs.nearest_neighbor_tcrdist(H["df_beta"], chain="gamma"),
        "tcrdist_nan_seq": lambda: prs.nearest_neighbor_tcrdist(H["df_cluster_nan_seq"].rename(columns={"cdr3b": "CDR3B"})),
        "tcrdist_max0": lambda: prs.nearest_neighbor_tcrdist(H["df_beta"], max_tcrdist=0),
    }
    return calls[which]()


grid("colors", "g_none_dicts", _g_none_dicts, dict(which=[(x, x) for x in (
    "hclust_none", "hclust_empty_link", "hclust_empty_cluster", "hls_none", "hls_empty", "hls_h", "hls_cmap", "hls_min0", "hls_min100", "tab_nan",
    "hls_categorical", "tab_2d", "hls_bool", "tcrdist_none", "tcrdist_empty", "tcrdist_kwargs_fwd", "tcrdist_coo", "tcrdist_no_neighbors", "tcrdist_no_v",
    "tcrdist_gamma", "tcrdist_nan_seq", "tcrdist_max0")]), cap=40, rand=True, io=True)


# 49: dtype variants of one table with missing values
def _g_dtype_nan(H, dtype, fn):
    d = H["df_stats_nan"]
    if dtype == "object":
        X = d.astype(object)
    elif dtype == "string":
        X = d.astype("string")
    elif dtype == "category":
        X = d.astype("category")
    else:
        X = d.astype(object)
        X.iloc[0, 0] = float("inf")
    calls = {
        "pc": lambda: prs.pc(X), "pc_col": lambda: prs.pc(X["a"]), "pc_joint": lambda: prs.pc_joint(X, ["a", "b"]),
        "pc_cond": lambda: prs.pc_conditional(X, "b", "a"), "overlap": lambda: [prs.overlap(X["a"], X["b"]), prs.jaccard_index(X["a"], X["b"])],
        "colors": lambda: pp.labels_to_colors_hls(X["a"]),
    }
    return calls[fn]()


grid("pc", "g_dtype_nan", _g_dtype_nan,
     dict(dtype=[(x, x) for x in ("object", "string", "category", "inf")], fn=[(x, x) for x in ("pc", "pc_col", "pc_joint", "pc_cond", "overlap", "colors")]), rand=True)


# 53-60: logos contents, neighbourhood callbacks and generators, ensure_numpy
def _g_logos2(H, which):
    import matplotlib.pyplot as plt

    if which == "kwargs":
        fig, ax = plt.subplots()
        return pp.seqlogos(H["seqs_eqlen"], ax=ax, font_name="DejaVu Sans", stack_order="small_on_top", fade_below=0.5, vpad=0.1, baseline_width=1.0)
    if which == "gaps":
        return pp.seqlogos(["CA-SF", "C--SF", "CAWSF"])
    if which == "lower":
        return pp.seqlogos(["casf", "caSF"])
    if which == "single":
        return pp.seqlogos(["CASSF"])
    if which == "array":
        return pp.seqlogos(np.array(H["seqs_eqlen"]))
    if which == "iter":
        return pp.seqlogos(iter(H["seqs_eqlen"]))
    d = H["df_vj"].copy()
    if which == "vj_short_names":
        d["v"] = ["V1", "V1", "TRBV6-9", np.nan]
    elif which == "vj_ints":
        d["v"] = [7, 7, 6, 2]
    elif which == "vj_ties":
        d["j"] = ["TRBJ1-1", "TRBJ2-7", "TRBJ1-1", "TRBJ2-7"]
    else:
        return pp.seqlogos_vj(H["df_cluster"], "cdr3b", "epitope", "donor")
    return pp.seqlogos_vj(d, "cdr3", "v", "j")


grid("logos", "g_logos2", _g_logos2, dict(which=[(x, x) for x in ("kwargs", "gaps", "lower", "single", "array", "iter", "vj_short_names", "vj_ints", "vj_ties",
                                                                  "vj_unequal")]), slow=True)


def _g_nb_forms(H, which):
    calls = {
        "isdist1_cb": lambda: [prs.isdist1("CAAF", H["ref_set"], neighborhood=cb_hamming_nb), prs.isdist1("CAAF", H["ref_set"], neighborhood=lambda x: iter(()))],
        "numbers_ref_cb": lambda: prs.calculate_neighbor_numbers(H["seqs_arr"], reference=H["ref_set"], neighborhood=cb_hamming_nb),
        "nnn_list": lambda: sorted(prs.next_nearest_neighbors("CAD", lambda x: list(prs.hamming_neighbors(x, "ACD")), maxdistance=2)),
        "ham_empty_pos": lambda: sorted(prs.hamming_neighbors("CADK", alphabet="AC", variable_positions=())),
        "ham_neg_pos": lambda: sorted(prs.hamming_neighbors("CADK", alphabet="AC", variable_positions=(1, -1))),
        "ham_range": lambda: sorted(prs.hamming_neighbors("CADK", alphabet="AC", variable_positions=range(1, 3))),
        "ham_bad_pos": lambda: sorted(prs.hamming_neighbors("CADK", alphabet="AC", variable_positions=[1, 9])),
        "lev_empty": lambda: [sorted(prs.levenshtein_neighbors("", alphabet="AC")), sorted(prs.hamming_neighbors("", alphabet="AC"))],
        "lev_default_alphabet": lambda: len(set(prs.levenshtein_neighbors("CAD"))),
        "ham_iter_alphabet": lambda: sorted(prs.hamming_neighbors("CAD", alphabet=iter("AC"))),
        "ensure_index": lambda: prs.ensure_numpy(pd.Index(H["seqs_list"])),
        "ensure_frame": lambda: prs.ensure_numpy(H["df_stats"]),
        "ensure_scalar": lambda: prs.ensure_numpy(np.str_("CAAA")),
        "ensure_gen": lambda: prs.ensure_numpy(x for x in H["seqs_list"]).shape,
        "ensure_cat": lambda: prs.ensure_numpy(H["df_categorical"]["a"]),
        "pc_n_index": lambda: [prs.pc_n(pd.Index([3, 2, 1])), prs.pc_n(H["df_stats"][["n"]])],
    }
    return calls[which]()


grid("neighbors", "g_nb_forms", _g_nb_forms, dict(which=[(x, x) for x in (
    "isdist1_cb", "numbers_ref_cb", "nnn_list", "ham_empty_pos", "ham_neg_pos", "ham_range", "ham_bad_pos", "lev_empty", "lev_default_alphabet",
    "ham_iter_alphabet", "ensure_index", "ensure_frame", "ensure_scalar", "ensure_gen", "ensure_cat", "pc_n_index")]), cap=30)


# every TCR metric class on every shape of table (paired, one chain only, no V genes, only V genes): most combinations are "calls that raise"
def _g_metric_shapes(H, cls, table, method):
    m = getattr(tm, cls)()
    if table == "no_v":
        X = H["df_tcr"][["CDR3A", "CDR3B"]]
    elif table == "only_v":
        X = H["df_tcr"][["TRAV", "TRBV"]]
    elif table == "beta_j":
        X = H["df_tcr"][["TRBV", "CDR3B", "TRBJ"]]
    else:
        X = H[table]
    if method == "pdist":
        return m.calc_pdist_vector(X)
    return m.calc_cdist_matrix(X, X)


grid("metric", "g_metric_shapes", _g_metric_shapes,
     dict(cls=[(x, x) for x in ("Cdr3Levenshtein", "AlphaCdr3Levenshtein", "BetaCdr3Levenshtein", "CdrLevenshtein", "AlphaCdrLevenshtein", "BetaCdrLevenshtein")],
          table=[("paired", "df_tcr"), ("beta", "df_beta"), ("alpha", "df_alpha_only"), ("no_v", "no_v"), ("only_v", "only_v"), ("beta_j", "beta_j"),
                 ("unknown_v", "df_vgenes_unknown")],
          method=[("pdist", "pdist"), ("cdist", "cdist")]), cap=50)


# V gene symbols at allele level: alleles of one gene whose germline CDR1 / CDR2 differ (round 20: a memo keyed by the gene without its allele).
# The same clonotypes under *01 and under *02 / *03 alleles, and a table mixing alleles of one gene, through every metric class
def _g_tcr_alleles(H, cls, table, method):
    m = getattr(tm, cls)()
    X = H[table]
    if method == "pdist":
        return m.calc_pdist_vector(X)
    if method == "cdist_01":
        return m.calc_cdist_matrix(X, H["df_tcr_alleles01"])
    return m.calc_cdist_matrix(X, H["df_tcr_alleles_alt"])


grid("metric", "g_tcr_alleles", _g_tcr_alleles,
     dict(cls=[(x, x) for x in ("CdrLevenshtein", "AlphaCdrLevenshtein", "BetaCdrLevenshtein", "Cdr3Levenshtein")],
          table=[("a01", "df_tcr_alleles01"), ("alt", "df_tcr_alleles_alt"), ("mixed", "df_tcr_alleles_mixed")],
          method=[("pdist", "pdist"), ("cdist_01", "cdist_01"), ("cdist_alt", "cdist_alt")]), cap=40)


# boundaries of the random paths: a cap that equals the size draws nothing (and must keep drawing nothing)
def _g_maxseqs_exact(H, fn, delta):
    if fn == "downsample_list":
        return prs.downsample(H["seqs_list"], len(H["seqs_list"]) + delta)
    if fn == "downsample_arr":
        return prs.downsample(H["seqs_arr"], len(H["seqs_arr"]) + delta)
    if fn == "downsample_table":
        return prs.downsample(H["df_tcr"], len(H["df_tcr"]) + delta)
    if fn == "pcDelta":
        return prs.pcDelta(H["seqs_list"], maxseqs=len(H["seqs_list"]) + delta, bins=H["bins_arr"])
    if fn == "pcDelta_two":
        return prs.pcDelta(H["seqs_list"], H["seqs_list2"], maxseqs=max(len(H["seqs_list"]), len(H["seqs_list2"])) + delta, bins=H["bins_arr"])
    if fn == "pcDelta_table":
        return prs.pcDelta(H["df_tcr"], maxseqs=len(H["df_tcr"]) + delta, bins=H["bins_arr"])
    if fn == "grouped":
        return prs.pcDelta_grouped(H["df_cluster"], "epitope", "cdr3b", bins=H["bins_arr"], maxseqs=int(H["df_cluster"]["epitope"].value_counts().max()) + delta)
    return prs.subsample(H["counts_arr"], int(np.sum(H["counts_arr"])) + min(delta, 0))


_EXACT_FNS = [(x, x) for x in ("downsample_list", "downsample_arr", "downsample_table", "pcDelta", "pcDelta_two", "pcDelta_table", "grouped", "subsample_all")]
# a cap that does not bind: deterministic by the documented contract ("returns the input collection without modification"), hence
# NOT declared randomised - such a call must neither depend on the generators nor advance them
grid("downsample", "g_maxseqs_nonbinding", _g_maxseqs_exact, dict(fn=_EXACT_FNS[:-1], delta=[("eq", 0), ("plus1", 1)]), cap=30)
grid("downsample", "g_maxseqs_binding", _g_maxseqs_exact, dict(fn=_EXACT_FNS, delta=[("minus1", -1)]), cap=30, rand=True)


# the same input under every search radius, with the threshold taken over by max_custom_distance (a callable distance): what is
# found then depends on which candidates the index nominates - state shared between radii shows here and nowhere else
def _g_radius(H, fn, seqs, max_edits, cbk, mcd):
    cb = {"lev2": cb_lev2, "half": cb_half}[cbk]
    kw = dict(custom_distance=cb, max_custom_distance=mcd)
    if fn == "symdel":
        return sorted(prs.symdel(seqs, max_edits=max_edits, **kw))
    if fn == "nn2":
        return sorted(prs.nearest_neighbor(seqs, max_edits=max_edits, seqs2=H["seqs_list2"], **kw))
    if fn == "symdeldb":
        return sorted(prs.SymdelDB(seqs, max_edits).lookup(H["seqs_list2"], **kw))
    if fn == "lookupdb":
        return sorted(prs.LookupDB(seqs).lookup(H["seqs_short"], max_edits=min(max_edits, 2), **kw))
    if fn == "hash_based":
        return sorted(prs.hash_based(H["seqs_short"], max_edits=min(max_edits, 2), **kw))
    return sorted(prs.kdtree(seqs, max_edits=max_edits, **kw))


grid("symdel", "g_radius", _g_radius,
     dict(fn=[(x, x) for x in ("symdel", "nn2", "symdeldb", "lookupdb", "hash_based", "kdtree")], seqs=[("list", "H:seqs_list"), ("arr", "H:seqs_arr")],
          max_edits=[("1", 1), ("2", 2), ("3", 3)], cbk=[("lev2", "lev2"), ("half", "half")], mcd=[("1", 1), ("2", 2), ("4", 4), ("6", 6)]), cap=60)


# frames whose axes carry names (or not): pandas hands the very Index object of an input on to a result more often than one thinks
@heap
def dfs_named_index():
    d0 = pd.DataFrame({"day0": [5, 3, 1]}, index=["c1", "c2", "c3"])
    d1 = pd.DataFrame({"day7": [4, 4, 2]}, index=pd.Index(["c1", "c2", "c3"], name="clonotype"))
    d2 = pd.DataFrame({"day14": [9, 1, 1]}, index=["c1", "c2", "c3"])
    return [d0, d1, d2]


@heap
def df_tcr_named_axes():
    d = df_tcr()
    d.index = pd.Index(["t%d" % i for i in range(len(d))], name="clone")
    d.columns.name = "field"
    return d


def _g_merge_named(H, how, order, sub):
    L = H["dfs_named_index"]
    L = {"012": L, "102": [L[1], L[0], L[2]], "02": [L[0], L[2]], "01": L[:2], "21": [L[2], L[1]]}[order]
    kw = {} if how is None else {"how": how}
    if sub == "suffixes":
        return prs.multimerge(L, "index", suffixes=list("abc")[:len(L)], **kw)
    return prs.multimerge(L, "index", **kw)


grid("multimerge", "g_merge_named", _g_merge_named,
     dict(how=[("default", None), ("left", "left"), ("right", "right"), ("inner", "inner")], order=[(x, x) for x in ("012", "102", "02", "01", "21")],
          sub=[("plain", "plain"), ("suffixes", "suffixes")]), cap=24)


def _g_named_axes(H, fn):
    d = H["df_tcr_named_axes"]
    calls = {
        "pdist": lambda: H["metric_cdr3"].calc_pdist_vector(d), "cdist": lambda: H["metric_beta"].calc_cdist_matrix(d, H["df_tcr"]),
        "cdrall": lambda: H["metric_cdrall"].calc_pdist_vector(d), "pcDelta": lambda: prs.pcDelta(d, bins=H["bins_arr"]),
        "hclust": lambda: prs.hierarchical_clustering(d), "downsample": lambda: prs.downsample(d, 3), "pc": lambda: prs.pc(d[["TRBV", "CDR3B"]]),
        "pc_joint": lambda: prs.pc_joint(d, ["TRBV", "TRBJ"]), "pc_cond": lambda: prs.pc_conditional(d, "Epitope", "CDR3B"),
        "renyi": lambda: prs.renyi2_entropy(d, "CDR3B", by="Epitope"), "standardize": lambda: prs.standardize_dataframe(d, suppress_warnings=True),
        "grouped": lambda: prs.pcDelta_grouped(d, "Epitope", "CDR3B", bins=H["bins_arr"]), "cross": lambda: prs.pc_grouped_cross(d, "Epitope", "CDR3B"),
        "colors": lambda: pp.labels_to_colors_tableau(d["Epitope"]), "tcrdist": lambda: prs.nearest_neighbor_tcrdist(d),
        "merge": lambda: prs.multimerge([d[["CDR3B"]], H["df_tcr_named_axes"][["TRBV"]]], "index"),
    }
    return calls[fn]()


grid("standardize", "g_named_axes", _g_named_axes,
     dict(fn=[(x, x) for x in ("pdist", "cdist", "cdrall", "pcDelta", "hclust", "downsample", "pc", "pc_joint", "pc_cond", "renyi", "standardize", "grouped",
                               "cross", "colors", "tcrdist", "merge")]), rand=True, io=True)


# the caller edits the ELEMENTS of what it was handed back (a colour triple, a row, a nested list), not just the container
def _g_own_elements(H, what):
    def poke(x):
        for e in (x if isinstance(x, (list, tuple)) else []):
            if isinstance(e, list) and e:
                e[0] = 0.625
            elif isinstance(e, np.ndarray) and e.size and e.flags.writeable:
                e.flat[0] = 0
            elif isinstance(e, dict):
                e["poked"] = 1
        return None

    if what == "hls_rare":
        return poke(pp.labels_to_colors_hls(H["many_labels"] + ["solo1", "solo2"], min_count=2))
    if what == "tab_rare":
        return poke(pp.labels_to_colors_tableau(list(H["nodes_list"]) + ["solo1", "solo2"], min_count=2))
    if what == "hls_all":
        return poke(pp.labels_to_colors_hls(H["many_labels"]))
    if what == "tab_all":
        return poke(pp.labels_to_colors_tableau(H["nodes_list"]))
    if what == "hclust":
        return poke(list(prs.hierarchical_clustering(H["seqs_eqlen"])))
    if what == "background":
        back, bins = prs.load_pcDelta_background()
        back.iloc[0, 0] = -1.0
        bins[0] = -5
        return None
    if what == "regex":
        r = prs.seqs_to_regex(H["seqs_eqlen"])
        return None if isinstance(r, str) else poke(r)
    if what == "subsample":
        return poke(list(prs.subsample(H["counts_arr"], 9)))
    if what == "db_attrs":
        db = prs.SymdelDB(H["seqs_list_b"], 1)
        for v in list(db.variant_dict.values())[:3]:
            if isinstance(v, list):
                v.append(99)
        return None
    lk = prs.LookupDB(H["seqs_list_b"])
    for v in list(lk.seq_dict.values())[:3]:
        if isinstance(v, list):
            v.append(99)
    return None


grid("colors", "g_own_elements", _g_own_elements,
     dict(what=[(x, x) for x in ("hls_rare", "tab_rare", "hls_all", "tab_all", "hclust", "background", "regex", "subsample", "db_attrs", "lookup_attrs")]),
     rand=True, io=True)


# the victims: rare labels (below min_count) next to frequent ones, for both colour mappers and through similarity_clustermap
def _g_rare_labels(H, fn, extra):
    labels = list(H["nodes_list"]) + ["solo%d" % i for i in range(extra)]
    return getattr(pp, fn)(labels, min_count=2)


grid("colors", "g_rare_labels", _g_rare_labels,
     dict(fn=[("hls", "labels_to_colors_hls"), ("tab", "labels_to_colors_tableau")], extra=[("1", 1), ("3", 3)]), rand=True)


# a caller-owned list of colour mappers that is SHORTER than the number of annotation rows, and the plain (non-callable) searches under every radius
@heap
def list_mappers_short():
    return [pp.labels_to_colors_tableau]


def _g_scm_mappers(H, meta, extra):
    kw = dict(meta_to_colors=H["list_mappers_short"])
    if meta == "list":
        kw["meta_columns"] = H["list_meta"]
    elif meta == "dict":
        kw["meta_columns"] = H["dict_meta"]
    elif meta == "one":
        kw["meta_columns"] = ["epitope"]
    kw.update(extra)
    return pp.similarity_clustermap(H["df_cluster"], **kw)


grid("clustermap", "g_scm_mappers", _g_scm_mappers,
     dict(meta=[("none", "none"), ("list", "list"), ("dict", "dict"), ("one", "one")], extra=[("plain", {}), ("ab", {"alpha_column": None})]), rand=True, slow=True)


def _g_radius_plain(H, fn, seqs, max_edits, mode):
    kw = dict(custom_distance=mode)
    if fn == "symdel":
        return sorted(prs.symdel(seqs, max_edits=max_edits, **kw))
    if fn == "nn2":
        return sorted(prs.nearest_neighbor(seqs, max_edits=max_edits, seqs2=H["seqs_list2"], **kw))
    if fn == "symdeldb":
        return sorted(prs.SymdelDB(seqs, max_edits).lookup(H["seqs_list2"], **kw))
    if fn == "lookupdb":
        return sorted(prs.LookupDB(H["seqs_short"]).lookup(H["seqs_short"], max_edits=min(max_edits, 2), **kw))
    if fn == "hash_based":
        return sorted(prs.hash_based(H["seqs_short"] if max_edits > 1 else seqs, max_edits=min(max_edits, 2), **kw))
    if fn == "hash_short":
        return sorted(prs.hash_based(H["seqs_short"], max_edits=min(max_edits, 2), **kw))
    return sorted(prs.kdtree(seqs, max_edits=max_edits, **kw))


grid("symdel", "g_radius_plain", _g_radius_plain,
     dict(fn=[(x, x) for x in ("symdel", "nn2", "symdeldb", "lookupdb", "hash_based", "hash_short", "kdtree")], seqs=[("list", "H:seqs_list"), ("arr", "H:seqs_arr")],
          max_edits=[("1", 1), ("2", 2), ("3", 3)], mode=[("lev", None), ("ham", "hamming")]), cap=60)


# hash_based / LookupDB share one edit-ball generator: every radius x mode on the same strings, in a small group of their own
def _g_hash_radius(H, fn, max_edits, mode):
    if fn == "hash_based":
        return sorted(prs.hash_based(H["seqs_short"], max_edits=max_edits, custom_distance=mode))
    if fn == "hash_arr":
        return sorted(prs.hash_based(H["seqs_arr"], max_edits=max_edits, custom_distance=mode))
    return sorted(prs.LookupDB(H["seqs_short"]).lookup(H["seqs_arr"], max_edits=max_edits, custom_distance=mode))


for _fn in ("hash_based", "hash_arr", "lookupdb"):
    for _k in (1, 2):
        for _mode in (("lev", None), ("ham", "hamming")):
            def _mk(fn=_fn, k=_k, mode=_mode[1]):
                def call(H):
                    return _g_hash_radius(H, fn, k, mode)
                return call
            _f = _mk()
            _f.__name__ = "hash_radius[fn=%s,max_edits=%d,mode=%s]" % (_fn, _k, _mode[0])
            _f._grid_fn = _g_hash_radius
            OPS[_f.__name__] = Op(_f.__name__, _f, "hash_based")


# bystanders: the simulated caller has ANOTHER figure open (created after the Axes it passes), which is pyplot's current figure; a call that
# is given an Axes must leave every other figure alone.  The template compares the bystander's fingerprint before and after by itself.
def _g_bystander(H, fn, label):
    import matplotlib.pyplot as plt

    from sim.canon import canon, figure_fingerprint

    fig, ax = plt.subplots()
    if fn == "seqlogos_vj":
        fig, axes = plt.subplots(ncols=3)
    other, oax = plt.subplots()  # now the current figure
    oax.plot([0, 1, 2], [2, 1, 0], label="bystander")
    before = canon(figure_fingerprint(other))
    kw = {"label": "sample A"} if label else {}
    if fn == "rankfrequency":
        pp.rankfrequency(H["counts_arr"], ax=ax, **kw)
    elif fn == "density_scatter":
        pp.density_scatter(H["xy_points"][0], H["xy_points"][1], ax=ax, cbar=bool(label), bins=5, **kw)
    elif fn == "seqlogos":
        pp.seqlogos(H["seqs_eqlen"], ax=ax)
    elif fn == "seqlogos_vj":
        pp.seqlogos_vj(H["df_vj"], "cdr3", "v", "j", axes=axes)
    elif fn == "label_axes":
        pp.label_axes(fig)
    else:
        (l1,) = ax.plot([0, 1], [0, 1], label="a")
        (l2,) = ax.plot([0, 1], [1, 0], label="b")
        ax.legend([(l1, l2)], ["pair"], handler_map={tuple: pp.HandlerTupleOffset()})
        fig.canvas.draw()
    after = canon(figure_fingerprint(other))
    return ["__bystander__", "" if before == after else "another open figure (pyplot's current one) changed while %s drew on the Axes it was given" % fn, fig]


grid("rankfreq", "g_bystander", _g_bystander,
     dict(fn=[(x, x) for x in ("rankfrequency", "density_scatter", "seqlogos", "seqlogos_vj", "label_axes", "legend_handler")], label=[("plain", False), ("label", True)]),
     rand=True, slow=True)


# bin edges the caller owns and that are not ascending (np.histogram rejects them): a call that raises must still leave them alone
@heap
def bins_unsorted():
    return np.array([4, 6, 0, 1, 2, 3])


def _g_bins_unsorted(H, fn, bins):
    b = {"arr": H["bins_unsorted"], "list": [4, 6, 0, 1, 2, 3], "desc": H["bins_unsorted"][::-1]}[bins]
    if fn == "pcDelta":
        return prs.pcDelta(H["seqs_list"], bins=b)
    if fn == "two":
        return prs.pcDelta(H["seqs_list"], H["seqs_list2"], bins=b)
    if fn == "grouped":
        return prs.pcDelta_grouped(H["df_cluster"], "epitope", "cdr3b", bins=b)
    if fn == "cross":
        return prs.pcDelta_grouped_cross(H["df_cluster"], "donor", "cdr3b", condensed=True, bins=b)
    return prs.pcDelta(H["df_tcr"], bins=b)


grid("pcDelta", "g_bins_unsorted", _g_bins_unsorted,
     dict(fn=[(x, x) for x in ("pcDelta", "two", "grouped", "cross", "table")], bins=[("arr", "arr"), ("list", "list"), ("desc", "desc")]))


# =============================================================================================
# random-argument templates: the ARGUMENTS come from a seeded generator A (one fixed value per 'base~<n>' name), drawn from
# small spaces on purpose, so that two templates of one base often share part of what a careless cache key would look at - the
# number of elements, the total length, the first element, the column names - and differ in the rest.  Caller-owned argument
# objects are registered with H.arg(...) so that they are snapshotted like heap objects.  Each batch seed draws its own set.
# =============================================================================================
_R_FAMILIES = ["CASSLGQAYEQYF", "CASSPGTDTQYF", "CAWSVGYEQYF", "CSARDRGNTIYF"]
_R_AA = "ACDEFGHIKLMNPQRSTVWY"
_R_V = ["TRBV2*01", "TRBV6-9*01", "TRBV7-2*01", "TRBV19*01", "TRBV19*02", "TRBV27*01", "TRBV27*02", "TRBV5-5*03"]
_R_VA = ["TRAV1-1*01", "TRAV5*01", "TRAV12-1*01", "TRAV1-1*02", "TRAV12-2*01", "TRAV12-2*03", "TRAV8-4*03"]


def _r_seq(A, base=None, edits=None):
    s = base if base is not None else A.choice(_R_FAMILIES)
    for _ in range(A.choice([0, 0, 1, 1, 2]) if edits is None else edits):
        i = A.randrange(1, max(2, len(s) - 1))
        k = A.choice(["sub", "sub", "ins", "del"])
        if k == "sub":
            s = s[:i] + A.choice(_R_AA) + s[i + 1:]
        elif k == "ins":
            s = s[:i] + A.choice(_R_AA) + s[i:]
        elif len(s) > 4:
            s = s[:i] + s[i + 1:]
    return s


def _r_seqs(A, n=None, eqlen=False, short=False):
    n = n or A.choice([4, 5, 5, 6, 8])
    if short:
        return ["".join(A.choice("ACD") for _ in range(A.choice([3, 4, 4, 5]))) for _ in range(n)]
    fam = A.sample(_R_FAMILIES, 1 if eqlen else A.choice([1, 1, 2]))
    out = []
    for _ in range(n):
        b = A.choice(fam)
        if eqlen:
            s = b
            for _ in range(A.choice([0, 1, 2])):
                i = A.randrange(1, len(s) - 1)
                s = s[:i] + A.choice(_R_AA) + s[i + 1:]
            out.append(s)
        else:
            out.append(_r_seq(A, b))
    if A.random() < 0.4:
        out[A.randrange(n)] = out[A.randrange(n)]
    return out


def _r_container(A, seqs):
    k = A.choice(["list", "list", "array", "tuple", "objarr"])
    if k == "array":
        return np.array(seqs)
    if k == "tuple":
        return tuple(seqs)
    if k == "objarr":
        return np.array(seqs, dtype=object)
    return list(seqs)


def _r_counts(A):
    n = A.choice([3, 4, 5, 6])
    return [A.choice([0, 1, 1, 2, 3, 5, 8, 13]) for _ in range(n)]


def _r_table(A, n=None):
    n = n or A.choice([4, 5, 6])
    epi = A.sample(["GILGFVFTL", "NLVPMVATV", "CLAMP"], 2)
    return pd.DataFrame({
        "TRAV": [A.choice(_R_VA) for _ in range(n)], "CDR3A": [_r_seq(A, "CAVKASGSRLT", A.choice([0, 1])) for _ in range(n)], "TRAJ": ["TRAJ1*01"] * n,
        "TRBV": [A.choice(_R_V) for _ in range(n)], "CDR3B": [_r_seq(A) for _ in range(n)], "TRBJ": ["TRBJ1-1*01"] * n,
        "Epitope": [A.choice(epi) for _ in range(n)], "MHCA": ["HLA-A*02"] * n, "MHCB": ["B2M"] * n, "clone_count": [A.choice([1, 1, 2, 5]) for _ in range(n)]})


def _r_stats_table(A):
    n = A.choice([5, 6, 8])
    return pd.DataFrame({"a": [A.choice("xyz") for _ in range(n)], "b": [A.choice("uv") for _ in range(n)],
                         "group": [A.choice(["g1", "g2"]) for _ in range(n)], "n": [A.choice([1, 2, 3]) for _ in range(n)]})


def _r_mode(A):
    return A.choice([None, None, "hamming"])


def _r_dist_kw(A):
    """custom_distance / max_custom_distance: default, Hamming, or a callable with a finite threshold of its own."""
    k = A.choice(["lev", "lev", "ham", "cb", "cb"])
    if k == "lev":
        return {}
    if k == "ham":
        return {"custom_distance": "hamming"}
    return {"custom_distance": A.choice([cb_lev2, cb_half]), "max_custom_distance": A.choice([1, 2, 4, 6])}


@randop("symdel", post=sorted_list)
def r_symdel(H, A):
    seqs = H.arg("seqs", _r_container(A, _r_seqs(A)))
    return prs.symdel(seqs, max_edits=A.choice([1, 1, 2, 3]), **_r_dist_kw(A))


@randop("symdel", post=sorted_list)
def r_symdel_two(H, A):
    seqs = H.arg("seqs", _r_container(A, _r_seqs(A)))
    seqs2 = H.arg("seqs2", _r_container(A, _r_seqs(A, n=A.choice([2, 3, 5]))))
    fn = A.choice([prs.symdel, prs.nearest_neighbor])
    return fn(seqs, max_edits=A.choice([1, 2, 3]), seqs2=seqs2, **_r_dist_kw(A))


@randop("hash_based", post=sorted_list)
def r_hash_based(H, A):
    seqs = H.arg("seqs", _r_container(A, _r_seqs(A)))
    if A.random() < 0.5:
        seqs = H.arg("short", _r_container(A, _r_seqs(A, short=True)))
        return prs.hash_based(seqs, max_edits=A.choice([1, 2]), custom_distance=_r_mode(A))
    return prs.hash_based(seqs, max_edits=1, custom_distance=_r_mode(A))


@randop("kdtree")
def r_kdtree(H, A):
    seqs = H.arg("seqs", _r_container(A, _r_seqs(A)))
    mr = A.choice([None, None, 1, 2])
    r = prs.kdtree(seqs, max_edits=A.choice([1, 2]), custom_distance=_r_mode(A), compression=A.choice([1, 1, 3, 8]), max_returns=mr)
    return sorted(r) if mr is None else sorted((i, d) for i, _, d in r)


@randop("kdtree", post=sorted_list)
def r_kdtree_cb(H, A):
    seqs = H.arg("seqs", _r_container(A, _r_seqs(A)))
    return prs.kdtree(seqs, max_edits=2, custom_distance=A.choice([cb_lev2, cb_half]), max_custom_distance=A.choice([2, 4, float("inf")]))


@randop("kdtree", pool=True, post=sorted_list)
def r_kdtree_pool(H, A):
    seqs = H.arg("seqs", _r_container(A, _r_seqs(A, n=A.choice([5, 6, 8]))))
    return prs.kdtree(seqs, max_edits=A.choice([1, 2]), custom_distance=_r_mode(A), n_cpu=A.choice([2, 3]))


@randop("db", post=sorted_list)
def r_symdeldb(H, A):
    ref = H.arg("ref", _r_container(A, _r_seqs(A)))
    db = prs.SymdelDB(ref, A.choice([1, 2, 3]))
    q1 = H.arg("q1", _r_seqs(A, n=3))
    q2 = H.arg("q2", _r_seqs(A, n=3))
    m1, m2 = _r_dist_kw(A), _r_dist_kw(A)
    return [sorted(db.lookup(q1, **m1)), sorted(db.lookup(q2, **m2)), sorted(db.lookup(q1, **m2))]


@randop("db", post=sorted_list)
def r_lookupdb(H, A):
    ref = H.arg("ref", _r_container(A, _r_seqs(A)))
    db = prs.LookupDB(ref)
    q1 = H.arg("q1", _r_seqs(A, n=2))
    q2 = H.arg("q2", _r_seqs(A, n=2))
    m1, m2 = _r_mode(A), _r_mode(A)
    return [sorted(db.lookup(q1, custom_distance=m1)), sorted(db.lookup(q2, custom_distance=m2)), sorted(db.lookup(q1, custom_distance=m2))]


@randop("db", post=sorted_list)
def r_heap_db_lookup(H, A):
    q = H.arg("q", ["".join(A.choice("ACDK") for _ in range(A.choice([3, 4, 4, 5]))) for _ in range(A.choice([2, 3]))])
    db = H[A.choice(["symdel_db", "lookup_db"])]
    return db.lookup(q, custom_distance=_r_mode(A))


@randop("pdist")
def r_pdist(H, A):
    seqs = H.arg("seqs", _r_container(A, _r_seqs(A)))
    return prs.pdist(seqs, dtype=A.choice([np.uint8, np.int64, float]))


@randop("pdist")
def r_cdist(H, A):
    a = H.arg("a", _r_container(A, _r_seqs(A, n=A.choice([2, 3, 4]))))
    b = H.arg("b", _r_container(A, _r_seqs(A, n=A.choice([2, 3, 4]))))
    return prs.cdist(a, b)


@randop("pcDelta")
def r_pcdelta(H, A):
    seqs = H.arg("seqs", _r_container(A, _r_seqs(A, n=A.choice([5, 6, 8]))))
    kw = A.choice([{}, {"bins": 0}, {"bins": H["bins_arr"]}, {"normalize": False}, {"pseudocount": 0.5}])
    return prs.pcDelta(seqs, **kw)


@randop("pcDelta")
def r_pcdelta_two(H, A):
    a = H.arg("a", _r_seqs(A))
    b = H.arg("b", _r_seqs(A))
    return prs.pcDelta(a, b, bins=H["bins_arr"])


@randop("pcDelta", rand=True)
def r_pcdelta_maxseqs(H, A):
    seqs = H.arg("seqs", _r_container(A, _r_seqs(A, n=8)))
    return prs.pcDelta(seqs, maxseqs=A.choice([3, 5, 8, 20]), bins=H["bins_arr"])


@randop("pcDelta")
def r_pcdelta_table(H, A):
    df = H.arg("df", _r_table(A))
    return prs.pcDelta(df, bins=H["bins_arr"], metric=A.choice([None, H["metric_beta"], H["metric_cdr3"]]))


@randop("pcDelta")
def r_pcdelta_grouped(H, A):
    df = H.arg("df", _r_table(A, n=8))
    fn = A.choice(["grouped", "cross"])
    if fn == "grouped":
        return prs.pcDelta_grouped(df, "Epitope", "CDR3B", bins=H["bins_arr"])
    return prs.pcDelta_grouped_cross(df, "Epitope", "CDR3B", bins=H["bins_arr"])


@randop("downsample", rand=True)
def r_downsample(H, A):
    k = A.choice(["seqs", "seqs", "table", "series"])
    if k == "table":
        x = H.arg("x", _r_table(A))
    elif k == "series":
        x = H.arg("x", pd.Series(_r_seqs(A), index=[A.choice([0, 3, 7]) + 2 * i for i in range(5)][: 5]) if False else pd.Series(_r_seqs(A, n=5), index=[10, 12, 14, 16, 18]))
    else:
        x = H.arg("x", _r_container(A, _r_seqs(A)))
    return prs.downsample(x, A.choice([None, 0, 2, 3, 100]))


@randop("hclust")
def r_hclust(H, A):
    seqs = H.arg("seqs", _r_seqs(A, n=A.choice([4, 5, 6])))
    kw = A.choice([{}, {"cluster_kws": {"t": 2, "criterion": "distance"}}, {"linkage_kws": {"method": "single"}}])
    return prs.hierarchical_clustering(seqs, **kw)


@randop("hclust")
def r_hclust_table(H, A):
    df = H.arg("df", _r_table(A))
    return prs.hierarchical_clustering(df, metric=A.choice([None, H["metric_cdr3"], H["metric_beta"]]))


@randop("metric")
def r_metric_lev(H, A):
    a = H.arg("a", _r_container(A, _r_seqs(A, n=A.choice([3, 4, 5]))))
    b = H.arg("b", _r_container(A, _r_seqs(A, n=A.choice([2, 3]))))
    from pyrepseq.metric import Levenshtein, WeightedLevenshtein

    m = A.choice([H["metric_lev"], H["metric_wlev"], Levenshtein(), WeightedLevenshtein(A.choice([1, 2]), A.choice([1, 2]), A.choice([1, 3]))])
    return [m.calc_pdist_vector(a), m.calc_cdist_matrix(a, b)]


@randop("metric")
def r_metric_tcr(H, A):
    a = H.arg("a", _r_table(A))
    b = H.arg("b", _r_table(A, n=3))
    k = A.choice(["cdr3", "beta", "cdrall", "alphacdr", "new_ab", "new_cdr", "new_ins", "new_betacdr", "new_alphacdr", "new_alphacdr3"])
    shape = A.choice(["paired", "paired", "beta", "alpha"])
    if shape == "beta":
        a, b = H.arg("a", a[["TRBV", "CDR3B", "TRBJ"]].copy()), H.arg("b", b[["TRBV", "CDR3B", "TRBJ"]].copy())
    elif shape == "alpha":
        a, b = H.arg("a", a[["TRAV", "CDR3A"]].copy()), H.arg("b", b[["TRAV", "CDR3A"]].copy())
    if k == "new_ab":
        m = tm.Cdr3Levenshtein(alpha_weight=A.choice([1, 2]), beta_weight=A.choice([1, 3]))
    elif k == "new_cdr":
        m = tm.CdrLevenshtein(cdr3_weight=A.choice([1, 2, 4]), cdr1_weight=A.choice([1, 2]))
    elif k == "new_ins":
        m = tm.BetaCdr3Levenshtein(insertion_weight=A.choice([1, 2]), substitution_weight=A.choice([1, 2]))
    elif k == "new_betacdr":
        m = tm.BetaCdrLevenshtein(cdr3_weight=A.choice([1, 3]))
    elif k == "new_alphacdr":
        m = tm.AlphaCdrLevenshtein(cdr2_weight=A.choice([1, 2]))
    elif k == "new_alphacdr3":
        m = tm.AlphaCdr3Levenshtein()
    else:
        m = H["metric_" + k]
    if A.random() < 0.5:
        return m.calc_pdist_vector(a)
    return m.calc_cdist_matrix(a, b)


@randop("pc")
def r_pc(H, A):
    x = H.arg("x", _r_container(A, _r_seqs(A, short=True, n=A.choice([4, 6, 8]))))
    return [prs.pc(x), prs.pc(x, x)] if A.random() < 0.5 else [prs.pc(x)]


@randop("pc")
def r_pc_n(H, A):
    c = H.arg("c", A.choice([list, np.array, pd.Series])(_r_counts(A)))
    return [prs.pc_n(c), prs.varpc_n(np.asarray(c))]


@randop("pc")
def r_pc_table(H, A):
    d = H.arg("d", _r_stats_table(A))
    k = A.choice(["pc", "joint", "cond", "grouped", "grouped_cross", "stdpc"])
    if k == "pc":
        return prs.pc(d[["a", "b"]])
    if k == "joint":
        return prs.pc_joint(d, ["a", "b"])
    if k == "cond":
        return prs.pc_conditional(d, "group", A.choice(["a", "b"]))
    if k == "grouped":
        return prs.pc_grouped_cross(d, "group", A.choice(["a", "b"]))
    if k == "grouped_cross":
        return prs.pc_grouped_cross(d, A.choice(["group", "b"]), "a")
    return prs.stdpc_joint(d, ["a", "b"])


@randop("entropy")
def r_renyi(H, A):
    d = H.arg("d", _r_stats_table(A))
    k = A.choice(["plain", "by", "std", "base"])
    if k == "plain":
        return prs.renyi2_entropy(d, A.choice(["a", ["a", "b"]]))
    if k == "by":
        return prs.renyi2_entropy(d, "a", by="group")
    if k == "std":
        return prs.stdrenyi2_entropy(d, ["a", "b"])
    return prs.renyi2_entropy(d, "a", base=A.choice([2, 10]))


@randop("chao")
def r_chao(H, A):
    c = H.arg("c", np.array(_r_counts(A) + [1, 1, 2]))
    return [prs.chao1(c), prs.chao2(c, A.choice([2, 5])) if hasattr(prs, "chao2") else None, prs.var_chao1(c)]


@randop("sets")
def r_sets(H, A):
    a = H.arg("a", _r_container(A, _r_seqs(A, short=True)))
    b = H.arg("b", _r_container(A, _r_seqs(A, short=True)))
    return [prs.overlap(a, b), prs.jaccard_index(a, b)]


@randop("subsample", rand=True)
def r_subsample(H, A):
    c = H.arg("c", A.choice([list, np.array])(_r_counts(A) + [2]))
    tot = int(np.sum(c))
    return prs.subsample(c, A.choice([0, 1, tot // 2, tot]))


@randop("powerlaw", rand=True)
def r_powerlaw_sample(H, A):
    return prs.powerlaw_sample(size=A.choice([1, 5, 40]), xmin=A.choice([1, 2, 5]), alpha=A.choice([1.5, 2.0, 3.0]))


@randop("powerlaw")
def r_powerlaw_mle(H, A):
    c = H.arg("c", np.array([A.choice([1, 1, 1, 2, 2, 3, 5, 8, 20, 100]) for _ in range(A.choice([8, 12, 30]))]))
    return prs.powerlaw_mle_alpha(c, cmin=A.choice([1, 1, 2]), method=A.choice(["simple", "continuitycorrection", "exact"]))


@randop("neighbors")
def r_neighbors(H, A):
    s = _r_seq(A, A.choice(["CADK", "CAAA", "ACD"]), A.choice([0, 1]))
    k = A.choice(["ham", "lev", "nnn", "isdist1", "nndist"])
    if k == "ham":
        return sorted(prs.hamming_neighbors(s, alphabet=A.choice(["AC", "ACD"])))
    if k == "lev":
        return sorted(prs.levenshtein_neighbors(s, alphabet=A.choice(["AC", "ACD"])))
    if k == "nnn":
        return sorted(prs.next_nearest_neighbors(s, cb_hamming_nb, maxdistance=A.choice([1, 2])))
    ref = H.arg("ref", set(_r_seqs(A, short=True, n=6)) | {"CAAA", "CADK"})
    if k == "isdist1":
        return prs.isdist1(s, ref)
    return prs.nndist_hamming(s, ref, maxdist=A.choice([1, 2, 3]))


@randop("neighbors")
def r_neighbor_pairs(H, A):
    seqs = H.arg("seqs", _r_container(A, _r_seqs(A, short=True, n=A.choice([5, 7]))))
    k = A.choice(["pairs", "pairs_index", "numbers", "numbers_ref"])
    if k == "pairs":
        return sorted(prs.find_neighbor_pairs(list(seqs)))
    if k == "pairs_index":
        return sorted(prs.find_neighbor_pairs_index(list(seqs)))
    if k == "numbers":
        return prs.calculate_neighbor_numbers(list(seqs))
    return prs.calculate_neighbor_numbers(list(seqs), reference=set(_r_seqs(A, short=True, n=6)))


@randop("graph", rand=True)
def r_graph(H, A):
    n = A.choice([5, 6, 8])
    edges = sorted(set((A.randrange(n), A.randrange(n)) for _ in range(A.choice([3, 5, 8]))))
    t = H.arg("t", np.array([(i, j, 1) for i, j in edges if i != j] or [(0, 1, 1)]))
    nodes = H.arg("nodes", ["s%d" % i for i in range(n)])
    return prs.graph_clustering(t, nodes, clustering=A.choice(["cc", "cc", "leiden", "multilevel"]))


@randop("valid")
def r_valid(H, A):
    s = A.choice([_r_seq(A), _r_seq(A).lower(), "C" + _r_seq(A)[1:-1] + "W", "", "CASSX", None])
    return [prs.isvalidcdr3(s) if s is not None and s != "" else None, prs.isvalidaa(s) if s is not None else None]


@randop("standardize")
def r_standardize(H, A):
    n = A.choice([2, 3, 4])
    d = H.arg("d", pd.DataFrame({"TRBV": [A.choice(["TRBV7-2", "TRBV7-2*01", "trbv19", "TRBV99"]) for _ in range(n)],
                                 "CDR3B": [A.choice([_r_seq(A), _r_seq(A)[1:-1], "casslgf"]) for _ in range(n)],
                                 "TRBJ": [A.choice(["TRBJ2-7", "TRBJ1-1*01", None]) for _ in range(n)],
                                 "Epitope": [A.choice(["GILGFVFTL", "gilgfvftl", None]) for _ in range(n)]}))
    return prs.standardize_dataframe(d, suppress_warnings=True, tcr_precision=A.choice(["gene", "allele"]),
                                     strict_cdr3_standardization=A.choice([False, True]))


@randop("multimerge")
def r_multimerge(H, A):
    n = A.choice([2, 3])
    dfs = H.arg("dfs", [pd.DataFrame({"key": A.sample(list("abcde"), 3), "v": [A.randrange(9) for _ in range(3)]}) for _ in range(n)])
    return prs.multimerge(dfs, "key", suffixes=list("LRZ")[:n], how=A.choice(["inner", "outer"]))


@randop("colors", rand=True)
def r_colors(H, A):
    n = A.choice([3, 9, 12, 25])
    labels = H.arg("labels", [A.choice(["e%d" % i for i in range(n)]) for _ in range(n + 4)])
    if A.random() < 0.5:
        return pp.labels_to_colors_hls(labels, min_count=A.choice([None, 2]))
    return pp.labels_to_colors_tableau(labels, min_count=A.choice([None, 2]))


@randop("rankfreq")
def r_rankfreq(H, A):
    import matplotlib.pyplot as plt

    c = H.arg("c", np.array(_r_counts(A) + [1, 2, 30]))
    fig, ax = plt.subplots()
    pp.rankfrequency(c, ax=ax, normalize_x=A.choice([True, False]), normalize_y=A.choice([True, False]), log_x=A.choice([True, False]))
    return fig


@randop("logos", slow=True)
def r_seqlogos(H, A):
    seqs = H.arg("seqs", _r_seqs(A, eqlen=True, n=A.choice([3, 5])))
    return pp.seqlogos(seqs)


@randop("density", rand=True)
def r_density(H, A):
    import matplotlib.pyplot as plt

    n = A.choice([10, 30])
    x = H.arg("x", np.array([A.gauss(0, 1) for _ in range(n)]))
    y = H.arg("y", np.array([A.gauss(0, 1) for _ in range(n)]))
    fig, ax = plt.subplots()
    pp.density_scatter(x, y, ax=ax, bins=A.choice([4, 6, [5, 4]]), sort=A.choice([True, False]))
    return fig


@randop("clustermap", rand=True, slow=True)
def r_clustermap(H, A):
    n = 8
    df = H.arg("df", pd.DataFrame({"cdr3a": [_r_seq(A, "CAVKASGSRLT", A.choice([0, 1, 2])) for _ in range(n)], "cdr3b": _r_seqs(A, n=n),
                                   "epitope": [A.choice(["E1", "E2"]) for _ in range(n)], "donor": [A.choice(["d1", "d2", "d3"]) for _ in range(n)]}))
    kw = A.choice([{}, {"meta_columns": ["epitope"]}, {"alpha_column": None}, {"cluster_kws": {"t": 3, "criterion": "distance"}}])
    return pp.similarity_clustermap(df, **kw)


@randop("tcrdist_nn", io=True)
def r_tcrdist(H, A):
    df = H.arg("df", _r_table(A)[["TRBV", "CDR3B"]])
    return prs.nearest_neighbor_tcrdist(df, max_edits=A.choice([1, 2]))


@randop("util")
def r_util(H, A):
    x = A.choice([_r_seqs(A), pd.Series(_r_seqs(A)), tuple(_r_seqs(A)), np.array(_r_counts(A))])
    x = H.arg("x", x)
    return prs.ensure_numpy(x)


@randop("background", io=True)
def r_background(H, A):
    back, bins = prs.load_pcDelta_background()
    seqs = H.arg("seqs", _r_seqs(A, n=6))
    return [prs.pcDelta(seqs, bins=bins), back.shape]


USES = _template_uses()
