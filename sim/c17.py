"""C17 — resampling and power-law utilities: conservation / bounds on every draw, uniformity.

The only nondeterminism here is NumPy's global random stream; that is the seam.  A run is a
pipeline of 4-10 ops, each preceded by np.random.seed(rng_seed) taken from the trace; boundary
runs overwrite individual uniforms with the legal extremes 0.0 and 1-2**-53, and 'extreme subset'
runs make np.random.choice(..., replace=False) return a legal but astronomically unlikely draw.
The first runs of every batch are uniformity runs (one op each): R draws compared with the exact
hypergeometric marginals under a Hoeffding bound at level 1e-12 per statistic.
"""
import collections
import itertools
import math
import random

from .core import HarnessError, digest
from .faults import RngBoundary

PROP = "C17"
RUN_TIMEOUT = 300
TIERS = {
    "quick": {"runs": 6000, "budget_s": 70, "selftest_seeds": 16, "unif_configs": 12, "unif_R": 20000},
    "thorough": {"runs": 200000, "budget_s": 780, "selftest_seeds": 64, "selftest_cross": True, "unif_configs": 60,
                 "unif_R": 200000},
}
UNIF = {"quick": (12, 20000), "thorough": (60, 200000)}
TAIL = {"quick": 10, "thorough": 60}  # runs U..U+T-1: exact-tail uniformity tests (Fisher-combined hypergeometric p-values)
TAIL_LEVEL = 1e-13
LEVEL = 1e-12
RULE = ("runs U..U+T-1 (T=10 quick / 60 thorough) are exact-tail runs: r draws of one configuration (small: r=400; deep repertoires "
        "with totals up to 4e6: r=4), per category and direction the hypergeometric tail p-values are Fisher-combined and compared "
        "with 1e-13. runs 0..U-1 are uniformity runs (U=12 quick / 60 thorough): R=20000/200000 draws of subsample or downsample "
        "for one fixed configuration, statistics vs exact hypergeometric marginals, Hoeffding bound at 1e-12 per "
        "statistic (< 1e4 statistics => total false-alarm probability < 1e-8). Other runs: pipeline of 4-10 ops "
        "(subsample, downsample on list/ndarray/Series/DataFrame, powerlaw_sample, powerlaw_mle_alpha on the "
        "previous sample), each preceded by np.random.seed(rng_seed) from the trace; faults at the RNG seam: "
        "rng_boundary, rng_extreme_subset. distinct = hash of the sequence of (op, argument class, n-class, fault). "
        "non-trivial = the run made a draw with 0 < n < total (or is a uniformity run).")
SIMULATED_TIME_NOTE = "no simulated clock (code reads none); logical time = op index, counters.ops; draws counted in counters.random_draws"
COMPONENTS = {
    "real": ["pyrepseq.stats.subsample / powerlaw_sample / powerlaw_mle_alpha", "pyrepseq.distance.downsample",
             "numpy legacy global generator (seeded)", "pandas DataFrame.sample", "scipy minimize_scalar / zeta"],
    "stub": ["individual uniforms overwritten with 0.0 / 1-2**-53 in rng_boundary runs",
             "np.random.choice(replace=False) replaced by an extreme legal subset in rng_extreme_subset runs"],
}
ASSUMPTIONS = [
    "randomness is drawn from NumPy's legacy global generator (np.random.*); a refactor to another generator is "
    "still checked by the invariants, and boundary_draw_used then stays 0 and nothing is asserted about boundary draws",
    "uniformity is asserted for subsample only (the statement's clause); downsample's element frequencies are measured and reported, not judged",
    "uniformity: Hoeffding two-sided bound at 1e-12 per statistic, Bonferroni over < 1e4 statistics; exact-tail runs: Fisher's "
    "method on scipy.stats.hypergeom log-tails (conservative for discrete p-values), level 1e-13 per statistic",
    "'exact' fit: discrete power-law log-likelihood is concave in alpha, so 'maximiser within bounds' is checked as "
    "L(x*) >= L(x* +- 1e-3) (clipped sides skipped) with an independent Hurwitz-zeta (Euler-Maclaurin)",
    "the powerlaw_mle_alpha closed forms are deterministic; they add no simulation content and are only evaluated along the way",
    "an overflow of powerlaw_sample to inf for alpha -> 1 satisfies 'integer-valued and >= xmin' and is accepted",
    "sampling, not proof",
]


# ---------------------------------------------------------------------------------------------
# generation
# ---------------------------------------------------------------------------------------------
def gen_counts(rng):
    if rng.random() < 0.04:  # long tail of a real repertoire: hundreds of categories of size 1-2, or one giant plus singletons
        L = rng.randint(20, 200)
        w = rng.random()
        if w < 0.3:  # more categories than a byte can index, all counts below 256 (round 21: an index dtype chosen from the largest count)
            L = rng.randint(257, 700)
        elif w < 0.34:  # ... than two bytes can index
            L = rng.randint(65537, 66000)
        c = [rng.choice([1, 1, 1, 2, 0]) for _ in range(L)]
        if rng.random() < 0.5:
            c[rng.randrange(L)] = rng.choice([50, 500])
        return c
    if rng.random() < 0.02:  # deep repertoires: conservation laws on large totals
        L = rng.randint(1, 5)
        return [rng.choice([0, 3, 2000, 10 ** 5, 4 * 10 ** 5, 10 ** 6]) for _ in range(L)]
    L = rng.randint(1, 12)
    hi = rng.choice([1, 2, 5, 30])
    c = [rng.randint(0, hi) for _ in range(L)]
    if rng.random() < 0.4 and L > 1:
        c[rng.randrange(L)] = 0
    if rng.random() < 0.03:
        c = [0] * L
    return c


def gen_n(rng, total):
    r = rng.random()
    if r < 0.1:
        return 0
    if r < 0.2:
        return min(1, total)
    if r < 0.3:
        return max(0, total - 1)
    if r < 0.42:
        return total
    if r < 0.55:
        return total + rng.choice([1, 1, 2, 10])
    return rng.randint(0, total)


def gen_strings(rng, n):
    a = "ACDE"
    pool = ["".join(rng.choice(a) for _ in range(rng.randint(1, 4))) for _ in range(max(1, n // 2 + 1))]
    if rng.random() < 0.3:
        return ["s%d" % i for i in range(n)]
    return [rng.choice(pool) for _ in range(n)]


def gen_op(rng, sw, last_sample):
    kind = rng.choice(sw["ops"])
    op = {"op": kind, "rng_seed": rng.getrandbits(32)}
    if kind == "subsample":
        counts = gen_counts(rng)
        n = gen_n(rng, sum(counts))
        op.update(counts=counts, n=n, container=rng.choice(["list", "ndarray", "ndarray", "tuple", "series", "int32", "uint8", "uint64"]),
                  n_float=rng.random() < 0.1, n_np=rng.random() < 0.1)
        if "rng_extreme_subset" in sw["faults"] and rng.random() < 0.5:
            op["extreme"] = rng.choice(["first", "last", "stride"])
    elif kind == "downsample":
        N = rng.choice([0, 1, 2, 3, 5, 8, 13, 20])
        cont = rng.choice(["list", "ndarray", "series", "dataframe", "tuple"])
        op.update(n_items=N, container=cont, items=gen_strings(rng, N))
        op["maxseqs"] = rng.choice([None, 0, 1, max(0, N - 1), N, N + 1, rng.randint(0, N + 1)])
        if cont == "dataframe":
            op["index_kind"] = rng.choice(["default", "offset", "strings", "shuffled", "duplicates", "multi"])
        if cont == "series":
            op["index_kind"] = rng.choice(["default", "offset", "duplicates", "strings"])
        op["maxseqs_np"] = rng.random() < 0.1
        if "rng_extreme_subset" in sw["faults"] and cont in ("list", "ndarray") and rng.random() < 0.5:
            op["extreme"] = rng.choice(["first", "last", "stride"])
    elif kind == "powerlaw_sample":
        op.update(size=rng.choice([0, 1, 2, 10, 100, 500, 2000]), xmin=rng.choice([1, 1, 2, 3, 10, 50]),
                  alpha=rng.choice([1.05, 1.2, 1.5, 2.0, 2.5, 3.0, 4.0, 6.0, round(rng.uniform(1.06, 6.0), 3)]))
        if "rng_boundary" in sw["faults"] and rng.random() < 0.6:
            op["boundary"] = [[rng.random(), rng.choice([0, 1])] for _ in range(rng.randint(1, 3))]
    else:  # powerlaw_mle_alpha on the previous sample (or a generated one)
        op.update(method=rng.choice(["simple", "continuitycorrection", "exact"]),
                  cmin_offset=rng.choice([0, 0, 0, 1, 2, -1]),
                  c_container=rng.choice(["ndarray", "ndarray", "list", "int", "series"]),
                  zeros=rng.random() < 0.2,
                  sample=dict(size=rng.choice([1, 5, 50, 400]), xmin=rng.choice([1, 2, 5]),
                              alpha=rng.choice([1.6, 2.0, 2.5, 3.5]), seed=rng.getrandbits(32)),
                  use_previous=rng.random() < 0.6)
        if op["method"] == "exact" and rng.random() < 0.4:
            op["bounds"] = rng.choice([[1.1, 3.0], [2.0, 6.0], [1.5, 2.0], [3.0, 4.5]])
        if op["method"] != "exact" and rng.random() < 0.2:
            # cmin is a real number ("only counts >= cmin are included in fit", default 1.0): thresholds between two integers
            op["cmin_frac"] = rng.choice([0.25, 0.4, 0.5, 0.75, 0.1])
        if op["method"] == "exact" and rng.random() < 0.25:
            # keyword arguments are "passed on to scipy.optimize.minimize_scalar": an iteration cap that stops the optimiser early makes it
            # report failure (the library raises "fitting failed" - allowed); whatever IS returned must still be a maximiser within the bounds
            op["maxiter"] = rng.choice([1, 2, 3, 5, 8, 13, 500])
    return op


def unif_config(rng, R):
    fn = rng.choice(["subsample", "subsample", "downsample"])
    if fn == "subsample":
        while True:
            L = rng.randint(2, 6)
            counts = [rng.choice([0, 1, 1, 2, 3, 5]) for _ in range(L)]
            N = sum(counts)
            if N >= 3:
                break
        n = rng.randint(1, N - 1)
        return {"op": "uniformity", "fn": fn, "counts": counts, "n": n, "R": R, "rng_seed": rng.getrandbits(32)}
    N = rng.randint(3, 9)
    return {"op": "uniformity", "fn": fn, "n_items": N, "maxseqs": rng.randint(1, N - 1),
            "container": rng.choice(["list", "ndarray", "series", "dataframe"]), "R": R, "rng_seed": rng.getrandbits(32)}


def tail_config(rng, big):
    if big:
        while True:
            L = rng.randint(2, 6)
            counts = [rng.choice([10 ** 6, 5 * 10 ** 5, 3 * 10 ** 5, 2000, 300, 40, 3, 0]) for _ in range(L)]
            if rng.random() < 0.75:
                counts[rng.randrange(L)] = rng.choice([10 ** 6, 2 * 10 ** 6])
            rng.shuffle(counts)
            total = sum(counts)
            if total >= 10 ** 5:
                break
        n = rng.choice([total // 4, total // 5, total // 10, 10 ** 5, 1000, total // 3])
        n = max(1, min(n, total - 1))
        r = 4
    else:
        while True:
            L = rng.randint(3, 12)
            counts = [rng.choice([0, 1, 2, 5, 9, 20, 60]) for _ in range(L)]
            total = sum(counts)
            if total >= 4:
                break
        n = rng.randint(1, total - 1)
        r = 400
    return {"op": "tailtest", "counts": counts, "n": n, "r": r, "rng_seed": rng.getrandbits(32),
            "container": rng.choice(["list", "ndarray"])}


def generate(seed, tier, index=0):
    rng = random.Random(seed)
    U, R = UNIF[tier]
    if index < U:
        return {"property": PROP, "seed": seed, "tier": tier, "swarm": {"kind": "uniformity"}, "ops": [unif_config(rng, R)]}
    if index < U + TAIL[tier]:
        return {"property": PROP, "seed": seed, "tier": tier, "swarm": {"kind": "tailtest"},
                "ops": [tail_config(rng, big=(index - U) % 2 == 0)]}
    sw = {
        "kind": "pipeline",
        "ops": rng.choice([["subsample"], ["downsample"], ["powerlaw_sample", "powerlaw_mle_alpha"],
                           ["subsample", "downsample", "powerlaw_sample", "powerlaw_mle_alpha"],
                           ["subsample", "downsample", "powerlaw_sample", "powerlaw_mle_alpha"]]),
        "faults": [f for f in ("rng_boundary", "rng_extreme_subset") if rng.random() < 0.4],
        "n_ops": rng.randint(4, 10),
    }
    ops = []
    for _ in range(sw["n_ops"]):
        ops.append(gen_op(rng, sw, None))
    return {"property": PROP, "seed": seed, "tier": tier, "swarm": sw, "ops": ops}


# ---------------------------------------------------------------------------------------------
# helpers
# ---------------------------------------------------------------------------------------------
class ExtremeChoice:
    """np.random.choice(a, size, replace=False) returns a legal but astronomically unlikely subset."""

    def __init__(self, how):
        self.how = how
        self.fired = 0

    def __enter__(self):
        import numpy as np

        self._np = np
        self._orig = np.random.choice

        def choice(a, size=None, replace=True, p=None):
            if replace or p is not None or size is None:
                return self._orig(a, size=size, replace=replace, p=p)
            arr = np.arange(a) if isinstance(a, (int, np.integer)) else np.asarray(a)
            n = int(size)
            if n > len(arr):
                return self._orig(a, size=size, replace=replace, p=p)
            self.fired += 1
            if self.how == "first":
                return arr[:n].copy()
            if self.how == "last":
                return arr[len(arr) - n:].copy()
            if n == 0:
                return arr[:0].copy()
            step = max(1, len(arr) // n)
            idx = list(range(0, len(arr), step))[:n]
            while len(idx) < n:
                idx.append(max(set(range(len(arr))) - set(idx)))
            return arr[sorted(idx)].copy()

        np.random.choice = choice
        return self

    def __exit__(self, *exc):
        self._np.random.choice = self._orig
        return False


class _Null:
    fired = 0

    def __enter__(self):
        return self

    def __exit__(self, *exc):
        return False


_B2 = [1.0 / 6, -1.0 / 30, 1.0 / 42, -1.0 / 30, 5.0 / 66, -691.0 / 2730, 7.0 / 6]


def hurwitz_zeta(s, a, N=24):
    """zeta(s, a) = sum_{k>=0} (a+k)^-s by direct summation + Euler-Maclaurin tail."""
    total = math.fsum((a + k) ** (-s) for k in range(N))
    x = a + N
    total += x ** (1 - s) / (s - 1) + 0.5 * x ** (-s)
    term = s
    fact = 2.0
    xp = x ** (-s - 1)
    for j, b in enumerate(_B2):
        total += b / fact * term * xp
        # next: multiply term by (s+2j+1)(s+2j+2), factorial by (2j+3)(2j+4), power by x^-2
        term *= (s + 2 * j + 1) * (s + 2 * j + 2)
        fact *= (2 * j + 3) * (2 * j + 4)
        xp /= x * x
    return total


def loglik(xs, alpha, xmin):
    n = len(xs)
    return -n * math.log(hurwitz_zeta(alpha, xmin)) - alpha * math.fsum(math.log(x) for x in xs)


def _same(a, b, rel=1e-9):
    if isinstance(a, float) and isinstance(b, float):
        if math.isnan(a) and math.isnan(b):
            return True
        if math.isinf(a) or math.isinf(b):
            return a == b
        return abs(a - b) <= rel * max(1.0, abs(a), abs(b))
    return a == b


def hoeffding_t(R, rng_width=1.0, level=LEVEL):
    return rng_width * math.sqrt(math.log(2.0 / level) / (2.0 * R))


def mvh_outcomes(counts, n, cap=40):
    """All outcome vectors of multivariate hypergeometric with exact probabilities, or None if > cap."""
    N = sum(counts)
    den = math.comb(N, n)
    out = {}
    ranges = [range(0, min(c, n) + 1) for c in counts]
    for k in itertools.product(*ranges):
        if sum(k) != n:
            continue
        p = 1
        for c, ki in zip(counts, k):
            p *= math.comb(c, ki)
        out[k] = p / den
        if len(out) > cap:
            return None
    return out


def make_container(items, kind, index_kind="default"):
    import numpy as np
    import pandas as pd

    n = len(items)
    if kind == "list":
        return list(items)
    if kind == "tuple":
        return tuple(items)
    if kind == "ndarray":
        return np.array(items, dtype=object if n == 0 else None)
    if index_kind == "offset":
        idx = list(range(100, 100 + n))
    elif index_kind == "strings":
        idx = ["r%d" % i for i in range(n)]
    elif index_kind == "shuffled":
        idx = list(reversed(range(n)))
    elif index_kind == "multi":
        idx = pd.MultiIndex.from_tuples([("s%d" % (i % 2), i // 2) for i in range(n)]) if n else pd.MultiIndex.from_tuples([], names=[None, None])
    elif index_kind == "duplicates":  # two repertoires stacked without ignore_index
        idx = [i % max(1, (n + 1) // 2) for i in range(n)]
    else:
        idx = list(range(n))
    if kind == "series":
        return pd.Series(list(items), index=idx, dtype=object)
    return pd.DataFrame({"CDR3B": list(items), "clone": list(range(n))}, index=idx)


# ---------------------------------------------------------------------------------------------
# execution
# ---------------------------------------------------------------------------------------------
def execute(trace, ctx=None):
    import numpy as np
    import pandas as pd
    import warnings
    import pyrepseq.stats as st
    import pyrepseq.distance as dist

    warnings.simplefilter("ignore")
    stats = collections.Counter()
    log = []
    shape = []
    violation = None
    nontrivial = False
    prev_sample = None

    def V(oracle, opname, step, detail):
        return {"oracle": oracle, "op": opname, "step": step, "detail": detail}

    for step, op in enumerate(trace["ops"]):
        kind = op["op"]
        stats["ops"] += 1
        if kind == "uniformity":
            violation, info = run_uniformity(op, step, st, dist)
            stats["uniformity_runs"] += 1
            stats["uniformity_statistics"] += info["statistics"]
            stats["downsample_frequency_outliers"] += info.get("outliers", 0)
            stats["random_draws"] += op["R"]
            log.append(["uniformity", info["digest"]])
            shape.append(["uniformity", op["fn"], op.get("counts"), op.get("n"), op.get("n_items"), op.get("maxseqs"), op.get("container")])
            nontrivial = True
            if violation:
                break
            continue

        if kind == "tailtest":
            violation, info = run_tailtest(op, step, st)
            stats["tailtest_runs"] += 1
            stats["tailtest_big"] += sum(op["counts"]) > 10 ** 6
            stats["uniformity_statistics"] += info["statistics"]
            stats["random_draws"] += op["r"]
            log.append(["tailtest", info["digest"]])
            shape.append(["tailtest", op["counts"], op["n"], op["r"]])
            nontrivial = True
            if violation:
                break
            continue
        np.random.seed(op["rng_seed"])
        random.seed(op["rng_seed"])
        if kind == "subsample":
            counts = op["counts"]
            total = sum(counts)
            n = op["n"]
            cont = op["container"]
            if cont == "ndarray":
                arg = np.array(counts)
            elif cont == "tuple":
                arg = tuple(counts)
            elif cont == "series":
                arg = pd.Series(counts, index=["c%d" % (len(counts) - i) for i in range(len(counts))])
            elif cont in ("int32", "uint8", "uint64") and max(counts + [0]) < 250:
                arg = np.array(counts, dtype=cont)
            else:
                arg = list(counts)
            narg = float(n) if op.get("n_float") else (np.int64(n) if op.get("n_np") else n)
            ctxm = ExtremeChoice(op["extreme"]) if op.get("extreme") else _Null()
            try:
                with ctxm:
                    res = st.subsample(arg, narg)
                raw_i, raw_c = [float(x) for x in res[0]], [float(x) for x in res[1]]
                integral = all(x == int(x) for x in raw_i + raw_c)
                out = ("value", [int(x) for x in raw_i], [int(x) for x in raw_c], integral)
            except HarnessError:
                raise
            except Exception as e:
                out = ("raise", type(e).__name__)
            if ctxm.fired:
                stats["fault_fired_rng_extreme_subset"] += 1
            elif op.get("extreme"):
                stats["fault_configured_not_fired_rng_extreme_subset"] += 1
            stats["random_draws"] += 1
            ncls = "0" if n == 0 else ("total" if n == total else (">total" if n > total else "mid"))
            stats["n_eq_0"] += n == 0
            stats["n_eq_total"] += n == total
            stats["zero_count_category_present"] += any(c == 0 for c in counts)
            shape.append(["subsample", len(counts), ncls, op.get("extreme"), op["container"]])
            log.append(["subsample", list(out)])
            if 0 < n < total:
                nontrivial = True
            if n > total:
                if out[0] == "value":
                    violation = V("n_gt_total_not_refused", "subsample", step,
                                  "subsample(%r, %r) returned %r, %r although n exceeds the total %d" % (counts, n, out[1], out[2], total))
                else:
                    stats["n_gt_total_refused"] += 1
            elif out[0] == "raise":
                violation = V("raised_for_valid_n", "subsample", step,
                              "subsample(%r, %r) raised %s for 0 <= n <= total=%d" % (counts, n, out[1], total))
            else:
                idx, cnt = out[1], out[2]
                if any(b <= a for a, b in zip(idx, idx[1:])):
                    violation = V("indices_not_sorted_unique", "subsample", step, "indices %r for counts=%r n=%d" % (idx, counts, n))
                elif not out[3]:
                    # (integer VALUES are what the statement asks for; the dtype of the returned arrays is not part of it)
                    violation = V("not_integer_valued", "subsample", step, "indices %r / counts %r are not whole numbers" % (raw_i, raw_c))
                elif any(not (0 <= i < len(counts)) for i in idx):
                    violation = V("index_out_of_range", "subsample", step, "indices %r for %d categories" % (idx, len(counts)))
                elif len(idx) != len(cnt):
                    violation = V("shape", "subsample", step, "indices %r vs counts %r" % (idx, cnt))
                elif any(c < 1 for c in cnt):
                    violation = V("nonpositive_count", "subsample", step, "returned counts %r" % (cnt,))
                elif sum(cnt) != n:
                    violation = V("sum_not_n", "subsample", step, "subsample(%r, %d): returned counts %r sum to %d" % (counts, n, cnt, sum(cnt)))
                elif any(c > counts[i] for i, c in zip(idx, cnt)):
                    violation = V("count_exceeds_original", "subsample", step,
                                  "subsample(%r, %d): indices %r counts %r exceed the original counts" % (counts, n, idx, cnt))
        elif kind == "downsample":
            items = op["items"]
            N = len(items)
            m = op["maxseqs"]
            arg = make_container(items, op["container"], op.get("index_kind", "default"))
            ctxm = ExtremeChoice(op["extreme"]) if op.get("extreme") else _Null()
            before = arg.copy() if op["container"] not in ("list", "tuple") else list(arg)
            marg = np.int64(m) if (op.get("maxseqs_np") and m is not None) else m
            try:
                with ctxm:
                    res = dist.downsample(arg, marg)
                err = None
            except HarnessError:
                raise
            except Exception as e:
                res, err = None, type(e).__name__
            if ctxm.fired:
                stats["fault_fired_rng_extreme_subset"] += 1
            elif op.get("extreme"):
                stats["fault_configured_not_fired_rng_extreme_subset"] += 1
            stats["random_draws"] += 1
            stats["maxseqs_eq_len"] += m == N
            stats["dataframe_input"] += op["container"] == "dataframe"
            mcls = "none" if m is None else ("0" if m == 0 else ("<" if m < N else ("=" if m == N else ">")))
            shape.append(["downsample", op["container"], mcls, op.get("index_kind"), op.get("extreme")])
            if m is not None and 0 < m < N:
                nontrivial = True
            if err:
                log.append(["downsample", "raise", err])
                violation = V("downsample_raised", "downsample", step, "downsample(%s of %d items, maxseqs=%r) raised %s" % (op["container"], N, m, err))
            elif m is None or N <= m:
                log.append(["downsample", "unchanged"])
                same = res is arg
                if not same:
                    try:
                        same = type(res) is type(arg) and len(res) == N and (
                            res.equals(arg) if hasattr(res, "equals") else list(res) == list(arg))
                    except Exception:
                        same = False
                if not same:
                    violation = V("input_not_returned_unchanged", "downsample", step,
                                  "downsample(%s of %d items, maxseqs=%r) returned %r" % (op["container"], N, m, _short(res)))
            else:
                if op["container"] == "dataframe":
                    if not isinstance(res, pd.DataFrame):
                        violation = V("table_rows_not_subset", "downsample", step, "result is %s, not a table" % type(res).__name__)
                    else:
                        # every input row carries a unique id in column 'clone' (labels may repeat): a subset of rows is a set of
                        # distinct ids, each with the label and the cells it has in the input
                        labels = list(res.index)
                        log.append(["downsample", "df", [str(x) for x in labels]])
                        ids = list(res["clone"]) if "clone" in res.columns else None
                        if len(res) != m:
                            violation = V("wrong_length", "downsample", step, "table of %d rows (index %s), maxseqs=%d -> %d rows" % (
                                N, op.get("index_kind"), m, len(res)))
                        elif list(res.columns) != list(before.columns) or ids is None:
                            violation = V("table_rows_not_subset", "downsample", step, "columns changed: %r" % list(res.columns))
                        elif len(set(ids)) != len(ids) or any(i not in set(before["clone"]) for i in ids):
                            violation = V("table_rows_not_subset", "downsample", step,
                                          "row ids %r are not distinct rows of the input %r" % (ids, list(before["clone"])))
                        else:
                            pos = {c: j for j, c in enumerate(before["clone"])}
                            want = before.iloc[[pos[i] for i in ids]]
                            if list(want.index) != labels or not res.reset_index(drop=True).equals(want.reset_index(drop=True)):
                                violation = V("table_rows_not_subset", "downsample", step,
                                              "rows differ from the input rows they come from (labels %r vs %r)" % (labels, list(want.index)))
                else:
                    try:
                        got = [str(x) for x in list(res)]
                    except Exception:
                        got = None
                    log.append(["downsample", "seq", got])
                    if got is None or len(got) != m:
                        violation = V("wrong_length", "downsample", step, "downsample(%s of %d items, maxseqs=%d) returned %s" % (
                            op["container"], N, m, _short(res)))
                    else:
                        extra = collections.Counter(got) - collections.Counter(items)
                        if extra:
                            violation = V("not_sub_multiset", "downsample", step,
                                          "downsample(%r, %d) -> %r : %r exceed their multiplicity in the input" % (items, m, got, dict(extra)))
            # "returns its input unchanged" is promised for len <= maxseqs / maxseqs None only: there the input must also BE
            # unchanged.  Whether a larger input is left alone while it is sampled is C20's subject, not this property's.
            if violation is None and (m is None or N <= m):
                try:
                    untouched = before.equals(arg) if hasattr(before, "equals") else list(before) == list(arg)
                except Exception:
                    untouched = True
                if not untouched:
                    violation = V("input_modified", "downsample", step, "downsample modified its %s input in place" % op["container"])
        elif kind == "powerlaw_sample":
            size, xmin, alpha = op["size"], op["xmin"], op["alpha"]
            ctxm = RngBoundary([list(x) for x in op["boundary"]]) if op.get("boundary") else _Null()
            try:
                with ctxm, np.errstate(all="ignore"):
                    res = st.powerlaw_sample(size=size, xmin=xmin, alpha=alpha)
                arr = np.asarray(res, dtype=float)
                err = None
            except HarnessError:
                raise
            except Exception as e:
                arr, err = None, type(e).__name__
            if op.get("boundary"):
                if ctxm.fired:
                    stats["fault_fired_rng_boundary"] += 1
                    stats["boundary_draw_used"] += ctxm.fired
                else:
                    stats["fault_configured_not_fired_rng_boundary"] += 1
            stats["random_draws"] += size
            shape.append(["powerlaw_sample", size if size < 3 else "n", xmin, alpha < 1.5, bool(op.get("boundary"))])
            if err:
                log.append(["powerlaw_sample", "raise", err])
                violation = V("powerlaw_sample_raised", "powerlaw_sample", step, "powerlaw_sample(%r, %r, %r) raised %s" % (size, xmin, alpha, err))
            else:
                log.append(["powerlaw_sample", digest([repr(float(x)) for x in arr.ravel()[:50]]), int(arr.size)])
                if arr.ndim != 1 or arr.size != size:
                    violation = V("wrong_size", "powerlaw_sample", step, "requested %d values, got shape %r" % (size, arr.shape))
                elif arr.size and (np.isnan(arr).any() or not np.all(arr == np.floor(arr))):
                    bad = arr[~(arr == np.floor(arr))][:5]
                    violation = V("not_integer_valued", "powerlaw_sample", step, "values %r (xmin=%r alpha=%r boundary=%r)" % (
                        bad.tolist(), xmin, alpha, op.get("boundary")))
                elif arr.size and arr.min() < xmin:
                    violation = V("below_xmin", "powerlaw_sample", step, "min value %r < xmin=%r (alpha=%r boundary=%r)" % (
                        float(arr.min()), xmin, alpha, op.get("boundary")))
                else:
                    prev_sample = (arr, xmin)
                    if size:
                        nontrivial = True
        else:  # powerlaw_mle_alpha
            if op.get("use_previous") and prev_sample is not None and prev_sample[0].size:
                c, xmin = prev_sample
            else:
                sp = op["sample"]
                np.random.seed(sp["seed"])
                with np.errstate(all="ignore"):
                    c = np.asarray(st.powerlaw_sample(size=sp["size"], xmin=sp["xmin"], alpha=sp["alpha"]), dtype=float)
                xmin = sp["xmin"]
            c = c[np.isfinite(c)]
            cmin = max(1, xmin + op["cmin_offset"])
            if op.get("cmin_frac") and op["method"] != "exact":
                cmin = cmin + float(op["cmin_frac"])
                stats["mle_non_integer_cmin"] += 1
            if op.get("zeros"):
                c = np.concatenate([np.zeros(3), c])  # unobserved clones in the count vector: below every cmin
            method = op["method"]
            kw = {}
            if op.get("bounds"):
                kw["bounds"] = list(op["bounds"])
            if op.get("maxiter"):
                kw["options"] = {"maxiter": int(op["maxiter"])}
                stats["mle_exact_with_iteration_cap"] += 1
            cc = op.get("c_container", "ndarray")
            if cc == "list":
                carg = [float(x) for x in c]
            elif cc == "int" and c.size and float(c.max()) < 2 ** 62:
                carg = c.astype(np.int64)
            elif cc == "series":
                carg = pd.Series(c, index=np.arange(len(c))[::-1])
            else:
                carg = c
            try:
                with np.errstate(all="ignore"):
                    res = float(st.powerlaw_mle_alpha(carg, cmin=cmin, method=method, **kw))
                err = None
            except HarnessError:
                raise
            except Exception as e:
                res, err = None, "%s: %s" % (type(e).__name__, e)
            shape.append(["mle", method, op["cmin_offset"], bool(op.get("bounds")), int(c.size > 0)])
            sel = [float(x) for x in c if x >= cmin]
            stats["mle_" + method] += 1
            if err:
                log.append(["mle", "raise", err[:60]])
                # 'exact' may legitimately report a failed fit (the library's own Exception("fitting failed")); anything else
                # on a valid sample means no maximiser was returned.  The closed forms never raise on numeric input.
                if method == "exact" and not err.startswith("Exception: fitting failed"):
                    violation = V("exact_raised", "powerlaw_mle_alpha", step, "method=exact cmin=%r n=%d bounds=%r raised %s" % (
                        cmin, len(sel), op.get("bounds"), err))
                elif method != "exact":
                    violation = V("closed_form_raised", "powerlaw_mle_alpha", step, "method=%s cmin=%r n=%d raised %s" % (method, cmin, len(sel), err))
            else:
                log.append(["mle", method, repr(res)])
                if method in ("simple", "continuitycorrection"):
                    base = cmin if method == "simple" else cmin - 0.5
                    den = math.fsum(math.log(x / base) for x in sel)
                    if den == 0:
                        want = float("nan") if not sel else float("inf")
                    else:
                        want = 1.0 + len(sel) / den
                    if not _same(res, want):
                        violation = V("closed_form", "powerlaw_mle_alpha", step,
                                      "method=%s cmin=%r n=%d: returned %r, documented closed form gives %r" % (method, cmin, len(sel), res, want))
                else:
                    lo, hi = op.get("bounds") or [1.5, 4.5]
                    if not (lo <= res <= hi):
                        violation = V("exact_outside_bounds", "powerlaw_mle_alpha", step, "returned %r outside bounds [%r, %r]" % (res, lo, hi))
                    elif sel:
                        L0 = loglik(sel, res, cmin)
                        tol = 1e-9 * (1.0 + abs(L0))
                        for y in (res - 1e-3, res + 1e-3):
                            if lo <= y <= hi and loglik(sel, y, cmin) > L0 + tol:
                                violation = V("exact_not_a_maximiser", "powerlaw_mle_alpha", step,
                                              "cmin=%r n=%d bounds=[%r,%r]: returned alpha=%r has log-likelihood %r < %r at alpha=%r" % (
                                                  cmin, len(sel), lo, hi, res, L0, loglik(sel, y, cmin), y))
                                break
        if violation:
            break

    return {
        "violation": violation,
        "digest": digest(log),
        "stats": {k: int(v) for k, v in stats.items()},
        "sets": {},
        "sig": digest(shape),
        "nontrivial": nontrivial,
    }


def _short(x):
    try:
        return repr(list(x))[:200]
    except Exception:
        return repr(x)[:200]


# ---------------------------------------------------------------------------------------------
# uniformity
# ---------------------------------------------------------------------------------------------
def run_uniformity(op, step, st, dist):
    import numpy as np

    R = op["R"]
    np.random.seed(op["rng_seed"])
    nstat = 0
    viol = None
    if op["fn"] == "subsample":
        counts, n = op["counts"], op["n"]
        N = sum(counts)
        L = len(counts)
        sums = [0] * L
        outcomes = mvh_outcomes(counts, n)
        freq = collections.Counter()
        arr = np.array(counts)
        for _ in range(R):
            idx, cnt = st.subsample(arr, n)
            k = [0] * L
            for i, c in zip(idx.tolist(), cnt.tolist()):
                if 0 <= i < L:
                    k[i] = c
                    sums[i] += c
            if outcomes is not None:
                freq[tuple(k)] += 1
        for i in range(L):
            width = min(counts[i], n)
            if width == 0:
                continue
            nstat += 1
            mean, want = sums[i] / R, n * counts[i] / N
            t = hoeffding_t(R, width)
            if abs(mean - want) > t and viol is None:
                viol = {"oracle": "uniformity", "op": "subsample", "step": step,
                        "detail": "subsample(%r, %d) over R=%d draws: mean kept count of category %d is %.5f, expected n*c/N=%.5f "
                                  "(allowed deviation %.5f at level 1e-12)" % (counts, n, R, i, mean, want, t)}
        if outcomes is not None:
            t = hoeffding_t(R, 1.0)
            for k, p in sorted(outcomes.items()):
                nstat += 1
                f = freq.get(k, 0) / R
                if abs(f - p) > t and viol is None:
                    viol = {"oracle": "uniformity", "op": "subsample", "step": step,
                            "detail": "subsample(%r, %d) over R=%d draws: outcome %r has frequency %.5f, exact hypergeometric "
                                      "probability %.5f (allowed deviation %.5f)" % (counts, n, R, list(k), f, p, t)}
            stray = set(freq) - set(outcomes)
            if stray and viol is None:
                viol = {"oracle": "uniformity", "op": "subsample", "step": step,
                        "detail": "subsample(%r, %d) produced impossible outcome(s) %r" % (counts, n, sorted(stray)[:3])}
        dg = digest([sums, sorted((list(k), v) for k, v in freq.items())])
    else:
        N, m, cont = op["n_items"], op["maxseqs"], op["container"]
        items = ["s%d" % i for i in range(N)]
        arg = make_container(items, cont, "strings" if cont == "dataframe" else "default")
        kept = collections.Counter()
        for _ in range(R):
            res = dist.downsample(arg, m)
            if cont == "dataframe":
                for lab in res.index:
                    kept[str(lab)] += 1
            else:
                for x in list(res):
                    kept[str(x)] += 1
        names = ["r%d" % i for i in range(N)] if cont == "dataframe" else items
        # The statement promises uniformity for subsample only ("every individual item being equally likely to be kept");
        # for downsample it promises size and sub-multiset, which every draw above is checked for.  Element frequencies of
        # downsample are therefore reported (coverage.counters.downsample_frequency_outliers), never raised as a violation.
        t = hoeffding_t(R, 1.0)
        outliers = 0
        for nm in names:
            nstat += 1
            f, p = kept.get(nm, 0) / R, m / N
            if abs(f - p) > t:
                outliers += 1
        total = sum(kept.values())
        if total != R * m and viol is None:
            viol = {"oracle": "wrong_length", "op": "downsample", "step": step,
                    "detail": "downsample(%s of %d distinct items, maxseqs=%d) over R=%d draws returned %d elements in total, expected %d" % (
                        cont, N, m, R, total, R * m)}
        stray = set(kept) - set(names)
        if stray and viol is None:
            viol = {"oracle": "not_sub_multiset", "op": "downsample", "step": step,
                    "detail": "downsample(%s of %d items, maxseqs=%d) returned elements that are not in the input: %r" % (cont, N, m, sorted(stray)[:4])}
        dg = digest(sorted(kept.items()))
        return viol, {"statistics": nstat, "digest": dg, "outliers": outliers}
    return viol, {"statistics": nstat, "digest": dg}


def run_tailtest(op, step, st):
    """r draws of one configuration; per category and direction the exact hypergeometric tail p-values of the kept
    counts are combined by Fisher's method (conservative for discrete p-values) and compared with TAIL_LEVEL."""
    import numpy as np
    from scipy.stats import chi2, hypergeom

    counts, n, r = op["counts"], op["n"], op["r"]
    N = sum(counts)
    L = len(counts)
    np.random.seed(op["rng_seed"])
    arg = np.array(counts) if op.get("container") == "ndarray" else list(counts)
    lo = [0.0] * L
    hi = [0.0] * L
    kept_sum = [0] * L
    for _ in range(r):
        idx, cnt = st.subsample(arg, n)
        k = [0] * L
        for i, c in zip(np.asarray(idx).tolist(), np.asarray(cnt).tolist()):
            if 0 <= i < L:
                k[i] += int(c)
        for i in range(L):
            if counts[i] == 0:
                if k[i]:
                    return ({"oracle": "count_exceeds_original", "op": "subsample", "step": step,
                             "detail": "subsample(%r, %d): category %d has count 0 but %d items were kept" % (counts, n, i, k[i])},
                            {"statistics": 0, "digest": "x"})
                continue
            kept_sum[i] += k[i]
            ki = min(k[i], counts[i], n)
            lp_lo = float(hypergeom.logcdf(ki, N, counts[i], n))
            lp_hi = float(hypergeom.logsf(ki - 1, N, counts[i], n))
            lo[i] += -2.0 * max(lp_lo, -700.0)
            hi[i] += -2.0 * max(lp_hi, -700.0)
    viol = None
    nstat = 0
    for i in range(L):
        if counts[i] == 0:
            continue
        for name, stat in (("too few", lo[i]), ("too many", hi[i])):
            nstat += 1
            p = float(chi2.sf(stat, 2 * r))
            if p < TAIL_LEVEL and viol is None:
                viol = {"oracle": "uniformity", "op": "subsample", "step": step,
                        "detail": "subsample(%r, %d) over r=%d draws keeps %s items of category %d (count %d): %d kept in total, expected %.2f; "
                                  "Fisher-combined exact hypergeometric tail probability %.3g < %.0e" % (
                                      counts, n, r, name, i, counts[i], kept_sum[i], r * n * counts[i] / N, p, TAIL_LEVEL)}
    return viol, {"statistics": nstat, "digest": digest(kept_sum)}


# ---------------------------------------------------------------------------------------------
# minimisation support
# ---------------------------------------------------------------------------------------------
def with_ops(trace, keep):
    return dict(trace, ops=[trace["ops"][i] for i in keep])


def _rep(trace, i, **ch):
    ops = list(trace["ops"])
    ops[i] = dict(ops[i], **ch)
    return dict(trace, ops=ops)


def candidates(trace):
    for i, op in enumerate(trace["ops"]):
        k = op["op"]
        if k in ("uniformity", "tailtest"):
            continue
        if op.get("extreme"):
            yield _rep(trace, i, extreme=None)
        if op.get("boundary"):
            yield _rep(trace, i, boundary=None)
            if len(op["boundary"]) > 1:
                for j in range(len(op["boundary"])):
                    yield _rep(trace, i, boundary=op["boundary"][:j] + op["boundary"][j + 1:])
        if k == "subsample":
            c = op["counts"]
            if len(c) > 1:
                for j in range(len(c)):
                    c2 = c[:j] + c[j + 1:]
                    yield _rep(trace, i, counts=c2, n=min(op["n"], sum(c2)) if op["n"] <= sum(c) else sum(c2) + 1)
            for j in range(len(c)):
                if c[j] > 0:
                    c2 = c[:j] + [c[j] - 1] + c[j + 1:]
                    yield _rep(trace, i, counts=c2, n=min(op["n"], sum(c2)) if op["n"] <= sum(c) else sum(c2) + 1)
            if op["n"] > 0:
                yield _rep(trace, i, n=op["n"] - 1)
            if op.get("n_float"):
                yield _rep(trace, i, n_float=False)
            if op["container"] != "list":
                yield _rep(trace, i, container="list")
        elif k == "downsample":
            it = op["items"]
            if len(it) > 1:
                for j in range(len(it)):
                    it2 = it[:j] + it[j + 1:]
                    m = op["maxseqs"]
                    yield _rep(trace, i, items=it2, n_items=len(it2), maxseqs=None if m is None else min(m, len(it2)))
            if op["maxseqs"]:
                yield _rep(trace, i, maxseqs=op["maxseqs"] - 1)
            if op["container"] != "list":
                yield _rep(trace, i, container="list", index_kind="default")
            if op.get("index_kind", "default") != "default":
                yield _rep(trace, i, index_kind="default")
        elif k == "powerlaw_sample":
            for s in (0, 1, 2, 10):
                if s < op["size"]:
                    yield _rep(trace, i, size=s)
            if op["xmin"] > 1:
                yield _rep(trace, i, xmin=1)
            if op["alpha"] != 2.0:
                yield _rep(trace, i, alpha=2.0)
        else:
            if op.get("use_previous"):
                yield _rep(trace, i, use_previous=False)
            if op.get("bounds"):
                yield _rep(trace, i, bounds=None)
            if op["cmin_offset"]:
                yield _rep(trace, i, cmin_offset=0)
            sp = op["sample"]
            for s in (1, 5, 50):
                if s < sp["size"]:
                    yield _rep(trace, i, sample=dict(sp, size=s))


def signature(trace, v):
    step = min(v.get("step", 0), len(trace["ops"]) - 1)
    op = trace["ops"][step]
    extra = op.get("container") or op.get("method") or ""
    fault = "extreme" if op.get("extreme") else ("boundary" if op.get("boundary") else "seeded")
    return "/".join([PROP, v["oracle"], v.get("op", ""), str(extra), fault])
