"""C03 — two-collection search / database objects queried repeatedly.

A run is a seeded history of builds, lookups, repeats, one-shot searches, faulted lookups and drops
over up to three live SymdelDB / LookupDB objects.  Every non-faulted answer is compared, as a
multiset, with a brute-force model (Wagner-Fischer / equal-length mismatches).
"""
import collections
import contextlib
import io
import math
import random
import sys

from . import oracles
from .core import HarnessError, InjectedCallbackError, InjectedInterrupt, digest
from .faults import FaultyCallable, LineInterrupt

PROP = "C03"
AA = "ACDEFGHIKLMNPQRSTVWY"
RUN_TIMEOUT = 90
TIERS = {
    "quick": {"runs": 6000, "budget_s": 70, "selftest_seeds": 16},
    "thorough": {"runs": 150000, "budget_s": 780, "selftest_seeds": 64, "selftest_cross": True},
}
RULE = ("one run = seeded history (<= 14 ops) of build / lookup / repeat / one-shot / faulted lookup / drop over "
        "<= 3 live SymdelDB / LookupDB objects; strings: short (length 0-7 over 2-3 letters) or clonal families "
        "(seed 8-14, <= 3 edits, <= 30 members), 'long' families (seed 33-70, <= 8 members, k <= 2) and 'big' collections "
        "(60-200 short strings); duplicates and equal-position hits forced; fault-free and "
        "fault-injecting swarms are separate runs. distinct = hash of the sequence of (op kind, object slot, db kind, "
        "mode, k, hit/no-hit, fault kind and whether it fired). non-trivial = some object answered >= 2 lookups.")
SIMULATED_TIME_NOTE = "no simulated clock (code reads none); logical time = op index in the history, counters.ops"
COMPONENTS = {
    "real": ["pyrepseq.SymdelDB / LookupDB (+ .lookup)", "pyrepseq.symdel / nearest_neighbor with seqs2", "rapidfuzz distances",
             "tqdm progress wrapper"],
    "stub": [],
    "model": ["brute-force all-pairs reference (pure-Python Wagner-Fischer / Hamming) in sim/oracles.py"],
}
ASSUMPTIONS = [
    "strings over the 20 amino acids (LookupDB generates its edit ball over that alphabet by design)",
    "collections are non-empty; the caller does not mutate the reference list after the build",
    "a faulted lookup's own outcome is not judged; everything after it is held to full equality",
    "thread-safety of concurrent lookups is not demanded (no property states it)",
    "async_interrupt lands on line boundaries of pyrepseq's own Python frames",
    "sampling, not proof",
]


# ---------------------------------------------------------------------------------------------
# generation
# ---------------------------------------------------------------------------------------------
def _edit(rng, s, alphabet, subs_only=False):
    kinds = ["sub"] if subs_only else ["sub", "sub", "ins", "del"]
    kind = rng.choice(kinds)
    if kind == "sub":
        if not s:
            return s if subs_only else rng.choice(alphabet)
        i = rng.randrange(len(s))
        c = rng.choice(alphabet)
        return s[:i] + c + s[i + 1:]
    if kind == "ins":
        i = rng.randrange(len(s) + 1)
        return s[:i] + rng.choice(alphabet) + s[i:]
    if not s:
        return s
    i = rng.randrange(len(s))
    return s[:i] + s[i + 1:]


def gen_ref(rng, sw):
    a = sw["alphabet"]
    if sw["style"] == "short":
        n = rng.randint(1, 12)
        lo, hi = sw["len_range"]
        ref = ["".join(rng.choice(a) for _ in range(rng.randint(lo, hi))) for _ in range(n)]
        if rng.random() < 0.06:
            ref[rng.randrange(n)] = ""
    elif sw["style"] == "runs":
        # run-rich and periodic strings (AAAAGGGG, ABABAB...): deletion variants collide massively
        n = rng.randint(1, 10)
        ref = []
        for _ in range(n):
            if rng.random() < 0.5:
                s_ = "".join(rng.choice(a) * rng.randint(1, 5) for _ in range(rng.randint(1, 4)))
            else:
                unit = "".join(rng.choice(a) for _ in range(rng.randint(1, 3)))
                s_ = (unit * 8)[:rng.randint(2, 12)]
            ref.append(s_[:14])
    elif sw["style"] == "huge":
        # thousands of references (beyond any "small input" fast path), built from a few hundred distinct strings
        n = rng.randint(1000, 4000)
        lo, hi = sw["len_range"]
        pool = ["".join(rng.choice(a) for _ in range(rng.randint(max(lo, 3), max(hi, 6)))) for _ in range(rng.choice([40, 300, 1500]))]
        ref = [rng.choice(pool) for _ in range(n)]
    elif sw["style"] == "big":
        n = rng.randint(60, 200)
        lo, hi = sw["len_range"]
        ref = ["".join(rng.choice(a) for _ in range(rng.randint(max(lo, 2), max(hi, 3)))) for _ in range(n)]
    else:
        n = rng.randint(1, sw["max_members"] if sw["style"] == "clonal" else 8)
        L = rng.randint(8, 14) if sw["style"] == "clonal" else rng.randint(33, 70)
        seed = "".join(rng.choice(a) for _ in range(L))
        ref = []
        for _ in range(n):
            s = seed
            for _ in range(rng.choice([0, 1, 1, 2, 3])):
                s = _edit(rng, s, a)
            ref.append(s)
    if n >= 2 and rng.random() < 0.45:
        for _ in range(rng.randint(1, max(1, n // 3))):
            ref[rng.randrange(n)] = ref[rng.randrange(n)]
    if rng.random() < 0.04:
        ref = [ref[0]] * rng.choice([3, 13, 40])  # one sequence many times: "each pair once" under heavy duplication
    return ref


def gen_queries(rng, sw, ref, k, mode):
    a = sw["alphabet"]
    nq = rng.randint(1, 6 if sw["style"] != "long" else 4)
    if sw.get("many_queries") and sw["style"] in ("short", "big", "runs", "huge"):
        nq = rng.choice([30, 60])
    subs = mode == "hamming" and rng.random() < 0.8
    out = []
    for qi in range(nq):
        r = rng.random()
        # equal-position hits: base the query at position qi on the reference at the same position
        if qi < len(ref) and rng.random() < 0.35:
            base = ref[qi]
        else:
            base = rng.choice(ref)
        if r < 0.2:
            q = base
        elif r < 0.55:
            q = base
            for _ in range(rng.randint(1, k)):
                q = _edit(rng, q, a, subs)
        elif r < 0.75:
            q = base
            for _ in range(k + 1):
                q = _edit(rng, q, a, subs)
        elif r < 0.85:
            L = max(len(s) for s in ref) + rng.randint(1, 2)
            q = "".join(rng.choice(a) for _ in range(L))
        elif r < 0.9:
            L = max(0, min(len(s) for s in ref) - rng.randint(1, 2))
            q = "".join(rng.choice(a) for _ in range(L))
        else:
            q = "".join(rng.choice(a) for _ in range(rng.randint(0, 7)))
        out.append(q)
    if nq >= 2 and rng.random() < 0.3:
        out[rng.randrange(nq)] = out[rng.randrange(nq)]
    return out


def generate(seed, tier, index=0):
    rng = random.Random(seed)
    style = rng.choice(["short"] * 8 + ["clonal"] * 7 + ["long"] * 3 + ["big"] * 2 + ["runs"] * 2)
    if rng.random() < (0.012 if tier == "thorough" else 0.004):
        style = "huge"
    if style == "huge":
        alphabet = "".join(rng.sample(AA, rng.choice([3, 4, 6])))
    elif style in ("short", "big", "runs"):
        alphabet = "".join(rng.sample(AA, rng.choice([2, 2, 3])))
    else:
        alphabet = "".join(rng.sample(AA, rng.choice([3, 6, 20])))
    faults_on = rng.random() < 0.5
    sw = {
        "style": style,
        "alphabet": alphabet,
        "len_range": rng.choice([[0, 3], [1, 4], [2, 5], [3, 7], [4, 4]]),
        "max_members": rng.choice([4, 10, 30]),
        "db_kinds": rng.choice([["symdel"], ["lookup"], ["symdel", "lookup"], ["symdel", "lookup"]]),
        "many_queries": rng.random() < 0.08,
        "faults": ([f for f in ("callback_raise", "async_interrupt") if rng.random() < 0.7] or ["async_interrupt"]) if faults_on else [],
        "n_ops": rng.randint(3, 14) if style != "huge" else rng.randint(2, 5),
        "p_hamming": rng.choice([0.0, 0.2, 0.5]),
        "p_progress": rng.choice([0.0, 0.15]),
        "max_slots": rng.choice([1, 2, 3]),
    }
    if sw["db_kinds"] == ["symdel"] and style in ("short", "clonal") and rng.random() < 0.15:
        # SymdelDB is alphabet-free (LookupDB is not): symbols that real CDR3 columns contain
        sw["alphabet"] = alphabet = alphabet + rng.choice(["X", "*", "_", "a", "X*"])
    ops = []
    slots = {}  # slot -> dict(kind, ref, k)
    lookups = []  # indices of earlier lookup ops

    def new_build(slot):
        kind = rng.choice(sw["db_kinds"])
        ref = gen_ref(rng, sw)
        k = rng.choice([1, 1, 2, 2, 3] if style not in ("long", "huge") else [1, 2, 2] if style == "long" else [1, 1, 2]) if kind == "symdel" else None
        slots[slot] = {"kind": kind, "ref": ref, "k": k}
        ops.append({"op": "build", "slot": slot, "kind": kind, "ref": ref, "k": k,
                    "container": rng.choice(["list", "list", "list", "ndarray", "tuple"])})

    def lookup_args(slot):
        d = slots[slot]
        mode = "hamming" if rng.random() < sw["p_hamming"] else "default"
        if d["kind"] == "symdel":
            k = d["k"]
            q = gen_queries(rng, sw, d["ref"], k, mode)
        else:
            q = gen_queries(rng, sw, d["ref"], 2, mode)
            mx = max(len(s) for s in q)
            k = 2 if ((mx <= 5 and rng.random() < 0.4) or (mx <= 10 and len(q) <= 3 and rng.random() < 0.06)) else 1
        alias = False
        if rng.random() < 0.05 and len(d["ref"]) <= 300 and (d["kind"] == "symdel" or max(len(s) for s in d["ref"]) <= 14):
            q, alias = list(d["ref"]), True  # the queries ARE the reference (same content; same object when 'alias')
            if d["kind"] == "lookup":
                k = 1
        # max_custom_distance is documented as "ignored if custom distance is not supplied": passing it must change nothing
        mcd = rng.choice([0, 1, 0.5, 2, 5]) if rng.random() < 0.12 else None
        return {"slot": slot, "queries": q, "mode": mode, "k": k, "progress": rng.random() < sw["p_progress"],
                "container": rng.choice(["list", "list", "list", "ndarray", "tuple"]), "alias_ref": alias and rng.random() < 0.5, "mcd": mcd}

    new_build(0)
    while len(ops) < sw["n_ops"]:
        r = rng.random()
        live = sorted(slots)
        if r < 0.12 and len(live) < sw["max_slots"]:
            new_build(min(s for s in range(3) if s not in slots))
        elif r < 0.16 and len(live) >= 1 and len(ops) > 2:
            s = rng.choice(live)
            if rng.random() < 0.5:
                ops.append({"op": "drop", "slot": s})
                del slots[s]
                if not slots:
                    new_build(s)
            else:
                new_build(s)  # rebuild in place: the slot now names a different object
        elif r < 0.30 and lookups:
            j = rng.choice(lookups)
            if ops[j]["slot"] in slots and slots[ops[j]["slot"]]["ref"] is _ref_of(ops, j):
                op = dict(ops[j], op="lookup", repeat_of=j)
                op.pop("fault", None)
                if rng.random() < 0.35:
                    # same queries, one parameter changed (cache-key bugs)
                    ch = rng.choice(["mode", "k", "progress"])
                    if ch == "mode":
                        op["mode"] = "hamming" if op["mode"] == "default" else "default"
                    elif ch == "k" and slots[op["slot"]]["kind"] == "lookup":
                        op["k"] = 1 if op["k"] == 2 else (2 if max(len(s) for s in op["queries"]) <= 5 else 1)
                    else:
                        op["progress"] = not op["progress"]
                    op["repeat_changed"] = ch
                lookups.append(len(ops))
                ops.append(op)
        elif r < 0.42:
            s = rng.choice(live)
            d = slots[s]
            a = lookup_args(s)
            k = d["k"] if d["kind"] == "symdel" else a["k"]
            ops.append({"op": "oneshot", "fn": rng.choice(["symdel", "nearest_neighbor"]), "slot": s, "queries": a["queries"],
                        "mode": a["mode"], "k": k, "progress": a["progress"], "container": a["container"],
                        "ref_container": rng.choice(["list", "list", "ndarray", "tuple"]), "alias_ref": a.get("alias_ref", False),
                        "mcd": a.get("mcd"),
                        # documented as "ignored" by symdel (max_returns, n_cpu) and nearest_neighbor (n_cpu)
                        "ignored_kw": rng.choice([{"n_cpu": 3}, {"n_cpu": 16}, {"max_returns": 1}]) if rng.random() < 0.1 else None})
        elif r < 0.62 and sw["faults"]:
            s = rng.choice(live)
            a = lookup_args(s)
            fk = rng.choice(sw["faults"])
            if fk == "callback_raise":
                a["mode"] = "default"
                fault = {"kind": fk, "fail_at": rng.choice([1, 1, 2, 3, 5, 8, 20])}
            else:
                fault = {"kind": fk, "k": int(math.exp(rng.uniform(0, math.log(60000 if style in ("big", "long") else 2000000 if style == "huge" else 5000))))}
            lookups.append(len(ops))  # the same queries may be re-issued later, unfaulted ('repeat' drops the fault)
            ops.append(dict(a, op="faulty_lookup", fault=fault))
        else:
            s = rng.choice(live)
            lookups.append(len(ops))
            ops.append(dict(lookup_args(s), op="lookup"))
    return {"property": PROP, "seed": seed, "tier": tier, "swarm": sw, "ops": ops}


def _ref_of(ops, j):
    """reference list object of the build that lookup op j was issued against (identity used at generation only)"""
    slot = ops[j]["slot"]
    for i in range(j, -1, -1):
        if ops[i]["op"] == "build" and ops[i]["slot"] == slot:
            return ops[i]["ref"]
    return None


# ---------------------------------------------------------------------------------------------
# comparison with the model
# ---------------------------------------------------------------------------------------------
def classify(impl, model):
    """impl, model: sorted lists of (q, r, d).  Returns None or (oracle, cond, detail)."""
    if impl == model:
        return None
    ci, cm = collections.Counter(impl), collections.Counter(model)
    dup = [t for t, c in ci.items() if c > 1 and cm.get(t, 0) <= 1]
    pairs_m = {(q, r): d for q, r, d in model}
    only_i = sorted((ci - cm).elements())
    only_m = sorted((cm - ci).elements())

    def cond(ts):
        if ts and all(q == r for q, r, _ in ts):
            return "q_index==r_index"
        if ts and all(d == 0 for _, _, d in ts):
            return "d==0"
        return "general"

    if dup:
        return "duplicate_pair", cond(dup), "reported more than once: %r" % dup[:5]
    wd = [(q, r, d, pairs_m[(q, r)]) for q, r, d in only_i if (q, r) in pairs_m and pairs_m[(q, r)] != d]
    if wd:
        return "wrong_distance", "general", "(q, r, reported d, true d): %r" % wd[:5]
    sw = [t for t in only_i if (t[1], t[0], t[2]) in set(only_m) and t[0] != t[1]]
    if sw:
        return "wrong_orientation", "general", "reported as (r, q, d) instead of (q, r, d): %r" % sw[:5]
    if only_m:
        return "missing_pair", cond(only_m), "within range but not reported: %r%s" % (
            only_m[:6], (" ; also spurious: %r" % only_i[:4]) if only_i else "")
    return "spurious_pair", cond(only_i), "reported but not within range: %r" % only_i[:6]


@contextlib.contextmanager
def quiet_stderr():
    old = sys.stderr
    sys.stderr = io.StringIO()
    try:
        yield
    finally:
        sys.stderr = old


def _container(x, kind):
    if kind == "ndarray":
        import numpy as np

        return np.array(x)
    if kind == "tuple":
        return tuple(x)
    return list(x)


# ---------------------------------------------------------------------------------------------
# execution
# ---------------------------------------------------------------------------------------------
def execute(trace, ctx=None):
    import pyrepseq.nn as nn

    objs = {}  # slot -> dict(obj, kind, ref, k, lookups, faulted)
    stats = collections.Counter()
    log = []
    shape = []
    violation = None
    answered = {}  # (slot generation id, args key) -> whether an identical earlier lookup matched the model
    gen_id = 0
    max_lookups_one_obj = 0
    where = []

    for step, op in enumerate(trace["ops"]):
        kind = op["op"]
        slot = op.get("slot")
        if kind == "build":
            ref = list(op["ref"])
            refarg = _container(ref, op.get("container", "list"))
            try:
                if op["kind"] == "symdel":
                    obj = nn.SymdelDB(refarg, op["k"])
                else:
                    obj = nn.LookupDB(refarg)
            except HarnessError:
                raise
            except Exception as e:
                violation = {"oracle": "build_raised", "op": "build", "step": step, "cond": "general",
                             "detail": "%s(%r) raised %s: %s" % (op["kind"], ref, type(e).__name__, e)}
                break
            gen_id += 1
            objs[slot] = {"obj": obj, "kind": op["kind"], "ref": ref, "refarg": refarg, "k": op["k"], "lookups": 0, "faulted": False,
                          "gen": gen_id}
            stats["builds"] += 1
            stats["build_" + op["kind"]] += 1
            if len(objs) >= 2:
                stats["two_objects_alive"] += 1
            shape.append(["build", slot, op["kind"], op["k"]])
            log.append(["build", slot])
            continue
        if slot not in objs:
            continue  # op on an object that does not exist (only after minimisation dropped its build)
        o = objs[slot]
        if kind == "drop":
            del objs[slot]
            stats["drops"] += 1
            shape.append(["drop", slot])
            continue

        mode = op["mode"]
        k = o["k"] if o["kind"] == "symdel" else op["k"]
        if kind == "oneshot":
            k = op["k"] if o["kind"] != "symdel" else o["k"]
        queries = list(op["queries"])
        if not queries:
            continue
        cd = "hamming" if mode == "hamming" else None
        fault = op.get("fault") if kind == "faulty_lookup" else None
        fc = None
        tracer = None
        if fault and fault["kind"] == "callback_raise":
            fc = FaultyCallable(oracles.levenshtein, fault["fail_at"])
            cd = fc

        extra = {}
        if op.get("mcd") is not None and not callable(cd):
            extra["max_custom_distance"] = op["mcd"]
            stats["max_custom_distance_without_custom_distance"] += 1

        def do_call():
            qarg = _container(queries, op.get("container", "list"))
            if kind == "oneshot":
                fn = getattr(nn, op["fn"])
                rarg = _container(o["ref"], op.get("ref_container", "list"))
                if op.get("alias_ref") and queries == o["ref"]:
                    qarg = rarg  # one object on both sides
                kw = dict(max_edits=k, custom_distance=cd, seqs2=qarg, **extra)
                ig = op.get("ignored_kw") or {}
                if op["fn"] == "symdel":
                    kw["progress"] = bool(op.get("progress"))
                    kw.update(ig)
                elif "n_cpu" in ig:
                    kw.update(ig)
                return fn(rarg, **kw)
            if op.get("alias_ref") and queries == o["ref"]:
                qarg = o["refarg"]  # the very list the database was built from
            if o["kind"] == "symdel":
                return o["obj"].lookup(qarg, custom_distance=cd, progress=bool(op.get("progress")), **extra)
            return o["obj"].lookup(qarg, max_edits=k, custom_distance=cd, progress=bool(op.get("progress")), **extra)

        outcome = None
        fired = False
        try:
            with quiet_stderr():
                if fault and fault["kind"] == "async_interrupt":
                    tracer = LineInterrupt(fault["k"])
                    with tracer:
                        res = do_call()
                else:
                    res = do_call()
            outcome = ("value", oracles.canon_triplets(res))
        except HarnessError:
            raise
        except InjectedInterrupt:
            fired = True
            outcome = ("interrupted",)
        except InjectedCallbackError:
            fired = True
            outcome = ("callback_raised",)
        except Exception as e:
            outcome = ("raise", type(e).__name__, str(e)[:200])
        if tracer is not None and tracer.fired:
            fired = True
        if fc is not None and fc.fired:
            fired = True
        stats["ops"] += 1

        api = op["fn"] if kind == "oneshot" else ("SymdelDB.lookup" if o["kind"] == "symdel" else "LookupDB.lookup")
        hit = None
        if fault:
            stats["fault_configured_" + fault["kind"]] += 1
            if fired:
                stats["fault_fired_" + fault["kind"]] += 1
                o["faulted"] = True
                if tracer is not None and tracer.where:
                    where.append("%s:%d" % tracer.where)
            else:
                stats["fault_configured_not_fired_" + fault["kind"]] += 1
        if kind != "oneshot":
            o["lookups"] += 1
            max_lookups_one_obj = max(max_lookups_one_obj, o["lookups"])
            if o["faulted"] and not fired:
                stats["lookup_after_fault"] += 1
        if op.get("repeat_of") is not None:
            stats["repeat_changed_param" if op.get("repeat_changed") else "repeat_same_query"] += 1
        if mode == "hamming":
            stats["hamming_lookups"] += 1
        if op.get("progress"):
            stats["progress_lookups"] += 1

        judged = not fired  # a fault that did not fire leaves an ordinary lookup (custom = Levenshtein itself)
        if judged:
            model = oracles.two_collection_model(queries, o["ref"], k, mode)
            hit = bool(model)
            if any(q == r for q, r, _ in model):
                stats["equal_position_hit"] += 1
            if any(d == 0 for _, _, d in model):
                stats["d0_hit"] += 1
            stats["model_pairs"] += len(model)
            stats["judged_lookups"] += 1
            akey = (o["gen"], kind == "oneshot", tuple(queries), mode, k)
            if outcome[0] == "value":
                bad = classify(outcome[1], model)
            else:
                bad = ("lookup_raised", "general", "%s raised %s: %s" % (api, outcome[1], outcome[2]))
            if bad:
                orc, cond, detail = bad
                if orc != "lookup_raised" and answered.get(akey) is True:
                    orc = "history_dependent"
                    detail = "the identical lookup was answered correctly earlier on this object; now: " + detail
                violation = {"oracle": orc, "op": api, "step": step, "cond": cond, "mode": mode,
                             "detail": "%s k=%d mode=%s ref=%r queries=%r: %s" % (api, k, mode, o["ref"][:12], queries, detail)}
            else:
                answered[akey] = True
        shape.append([kind, slot, o["kind"], mode, k, hit, fault["kind"] if fault else None, fired])
        log.append([kind, slot, list(outcome)])
        if violation:
            break

    sig = digest(shape)
    return {
        "violation": violation,
        "digest": digest(log),
        "stats": dict(stats),
        "sets": {"where_interrupted": where},
        "sig": sig,
        "nontrivial": max_lookups_one_obj >= 2,
    }


# ---------------------------------------------------------------------------------------------
# minimisation support
# ---------------------------------------------------------------------------------------------
def with_ops(trace, keep):
    old = trace["ops"]
    remap = {}
    ops = []
    for i in keep:
        remap[i] = len(ops)
        ops.append(dict(old[i]))
    for op in ops:
        if op.get("repeat_of") is not None:
            if op["repeat_of"] in remap:
                op["repeat_of"] = remap[op["repeat_of"]]
            else:
                op.pop("repeat_of")
                op.pop("repeat_changed", None)
    return dict(trace, ops=ops)


def _rep(trace, i, **ch):
    ops = list(trace["ops"])
    ops[i] = dict(ops[i], **ch)
    return dict(trace, ops=ops)


def _shrink_list(xs):
    n = len(xs)
    if n > 2:
        yield xs[: n // 2]
        yield xs[n // 2:]
    if n > 1:
        for j in range(n):
            yield xs[:j] + xs[j + 1:]
    for j, s in enumerate(xs):
        if len(s) > 1:
            for cut in sorted(set([0, len(s) // 2, len(s) - 1])):
                yield xs[:j] + [s[:cut] + s[cut + 1:]] + xs[j + 1:]


def candidates(trace):
    for i, op in enumerate(trace["ops"]):
        if op["op"] == "build":
            for ref in _shrink_list(op["ref"]):
                yield _rep(trace, i, ref=ref)
            if op.get("k") and op["k"] > 1:
                yield _rep(trace, i, k=op["k"] - 1)
        if "queries" in op:
            for q in _shrink_list(op["queries"]):
                yield _rep(trace, i, queries=q)
            if op.get("mode") == "hamming":
                yield _rep(trace, i, mode="default")
            if op.get("progress"):
                yield _rep(trace, i, progress=False)
            if op.get("container", "list") != "list":
                yield _rep(trace, i, container="list")
            if op.get("k") == 2:
                yield _rep(trace, i, k=1)
        if op["op"] == "faulty_lookup":
            f = op["fault"]
            if f["kind"] == "async_interrupt" and f["k"] > 1:
                yield _rep(trace, i, fault=dict(f, k=max(1, f["k"] // 2)))
            if f["kind"] == "callback_raise" and f["fail_at"] > 1:
                yield _rep(trace, i, fault=dict(f, fail_at=1))


def signature(trace, v):
    faulted = any(op["op"] == "faulty_lookup" for op in trace["ops"])
    n_look = sum(1 for op in trace["ops"] if op["op"] in ("lookup", "faulty_lookup"))
    hist = "after_fault" if faulted else ("repeated" if n_look > 1 else "first_lookup")
    step = v.get("step")
    if isinstance(step, int) and 0 <= step < len(trace["ops"]) and trace["ops"][step].get("mcd") is not None:
        hist += "+max_custom_distance_without_custom_distance"
    return "/".join([PROP, v["oracle"], v.get("op", ""), v.get("mode", "default"), v.get("cond", "general"), hist])
