"""vcheck entry point.

  vcheck <C03|C11|C17|C20> <quick|thorough>
  vcheck --replay <path>
  vcheck --selftest [prop ...]
  vcheck --digests <prop> <tier> <n>      (internal: cross-interpreter determinism self-test)

env: VERIF_SEED (batch seed), VERIF_TIER, VERIF_REPO (default /repo), VERIF_WORKERS (default 16),
     VERIF_RUNS / VERIF_BUDGET (override the tier's run count / wall budget).
"""
import os
import sys

HERE = os.path.dirname(os.path.abspath(__file__))
VERIF = os.path.dirname(HERE)


def _ensure_env():
    want = os.environ.get("VERIF_HASHSEED", "0")
    fixed = {
        "PYTHONHASHSEED": want,
        "MPLBACKEND": "Agg",
        "OMP_NUM_THREADS": "1",
        "OPENBLAS_NUM_THREADS": "1",
        "MKL_NUM_THREADS": "1",
        "PYTHONDONTWRITEBYTECODE": "1",
        "PYREPSEQ_VERIF": "1",
    }
    if any(os.environ.get(k) != v for k, v in fixed.items()):
        env = dict(os.environ)
        env.update(fixed)
        os.execve(sys.executable, [sys.executable] + sys.argv, env)


def main(argv):
    _ensure_env()
    if VERIF not in sys.path:
        sys.path.insert(0, VERIF)
    os.chdir(VERIF)
    import warnings

    warnings.filterwarnings("ignore")
    from sim import core

    core.import_repo()
    from sim import simpool

    simpool.install()
    from sim import batch

    if not argv:
        print(__doc__)
        return 2
    if argv[0] == "--replay":
        return batch.replay(argv[1])
    if argv[0] == "--digests":
        return batch.digests_only(argv[1], argv[2], int(argv[3]),
                                  int(os.environ.get("VERIF_SEED", core.DEFAULT_SEED)),
                                  int(os.environ.get("VERIF_WORKERS", "4")))
    if argv[0] == "--cold-op":
        from sim import c20

        return c20.cold_op(argv[1], argv[2] if len(argv) > 2 else None)
    if argv[0] == "--selftest":
        from sim import selftest

        return selftest.main(argv[1:])
    prop = argv[0]
    tier = argv[1] if len(argv) > 1 else os.environ.get("VERIF_TIER", "quick")
    if prop not in batch.PROPS or tier not in ("quick", "thorough"):
        print(__doc__)
        return 2
    return batch.run_check(prop, tier)


if __name__ == "__main__":
    try:
        code = main(sys.argv[1:])
    except SystemExit:
        raise
    except BaseException as e:  # any crash of the harness is exit 2, never 0 and never a VIOLATION
        import traceback

        traceback.print_exc()
        print("HARNESS-ERROR: %s: %s" % (type(e).__name__, e))
        code = 2
    sys.stdout.flush()
    sys.exit(code)
