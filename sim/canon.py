"""Canonicalisation of results, structural snapshots of caller-owned objects, tolerant comparison.

Outcome values are reduced to JSON-able structures: floats stay floats (compared with relative
tolerance 1e-9), missing values (None, NaN, pd.NA, NaT) are one token, API-level sets are sorted by
the caller (Op.post), matplotlib results are reduced to an artist-data fingerprint — never object
ids or figure numbers.
"""
import enum
import math
import types

import numpy as np
import pandas as pd

MISSING = "<NA>"
REL = 1e-9


def _is_missing(x):
    if x is None:
        return True
    try:
        if x is pd.NA or x is pd.NaT:
            return True
    except Exception:
        pass
    if isinstance(x, (float, np.floating)):
        return math.isnan(float(x))
    return False


def canon(x, depth=0):
    if depth > 12:
        return ["deep", type(x).__name__]
    if _is_missing(x):
        return MISSING
    if isinstance(x, (bool, np.bool_)):
        return bool(x)
    if isinstance(x, (int, np.integer)):
        return int(x)
    if isinstance(x, (float, np.floating)):
        f = float(x)
        if math.isinf(f):
            return "inf" if f > 0 else "-inf"
        return f
    if isinstance(x, (str, np.str_)):
        return str(x)
    if isinstance(x, bytes):
        return ["bytes", x.decode("latin1")]
    if isinstance(x, complex):
        return ["complex", x.real, x.imag]
    if isinstance(x, np.ndarray):
        return {"nd": str(x.dtype) if x.dtype != object else "object", "shape": list(x.shape),
                "data": canon(x.tolist(), depth + 1)}
    if isinstance(x, pd.DataFrame):
        return {"df": True, "columns": canon(list(x.columns), depth + 1), "index": canon(list(x.index), depth + 1),
                "index_names": canon(list(x.index.names), depth + 1),
                "dtypes": [str(t) for t in x.dtypes], "values": canon(x.to_numpy(dtype=object).tolist(), depth + 1)}
    if isinstance(x, pd.Series):
        return {"series": str(x.dtype), "name": canon(x.name, depth + 1), "index": canon(list(x.index), depth + 1),
                "values": canon(list(x), depth + 1)}
    if isinstance(x, pd.Index):
        return {"index": canon(list(x), depth + 1)}
    if isinstance(x, dict):
        return {"dict": sorted(([canon(k, depth + 1), canon(v, depth + 1)] for k, v in x.items()), key=repr)}
    if isinstance(x, (set, frozenset)):
        return {"set": sorted((canon(v, depth + 1) for v in x), key=repr)}
    if isinstance(x, tuple):
        return {"tuple": [canon(v, depth + 1) for v in x]}
    if isinstance(x, list):
        return [canon(v, depth + 1) for v in x]
    mod = type(x).__module__ or ""
    if mod.startswith("scipy.sparse"):
        c = x.tocoo()
        trip = sorted(zip(c.row.tolist(), c.col.tolist(), c.data.tolist()))
        return {"sparse": list(c.shape), "data": canon([list(t) for t in trip], depth + 1)}
    if mod.startswith("matplotlib") or mod.startswith("seaborn") or mod.startswith("pyrepseq.plotting"):
        fp = figure_fingerprint(x)
        if fp is not None:
            return fp
    if hasattr(x, "__next__") or (hasattr(x, "__iter__") and type(x).__name__ in ("generator", "map", "filter", "zip")):
        return {"iter": [canon(v, depth + 1) for v in x]}
    if isinstance(x, range):
        return {"range": [x.start, x.stop, x.step]}
    return ["obj", type(x).__module__, type(x).__name__]


# ---------------------------------------------------------------------------------------------
# figures
# ---------------------------------------------------------------------------------------------
def _fig_of(x):
    import matplotlib.figure
    import matplotlib.axes
    import matplotlib.artist

    if isinstance(x, matplotlib.figure.Figure):
        return x
    if isinstance(x, matplotlib.axes.Axes):
        return x.figure
    if hasattr(x, "fig") and isinstance(getattr(x, "fig"), matplotlib.figure.Figure):
        return x.fig
    if hasattr(x, "figure") and isinstance(getattr(x, "figure"), matplotlib.figure.Figure):
        return x.figure
    if isinstance(x, matplotlib.artist.Artist) and x.get_figure() is not None:
        return x.get_figure()
    return None


def _arr(a):
    try:
        a = np.asarray(a)
        if a.dtype == object:
            return canon(a.tolist())
        a = np.ma.filled(np.ma.masked_invalid(a.astype(float)), np.nan)
        return canon(a.tolist())
    except Exception:
        return ["unarrayable", type(a).__name__]


def figure_fingerprint(x):
    fig = _fig_of(x)
    if fig is None:
        return None
    out = {"figure": True, "size": [round(float(v), 6) for v in fig.get_size_inches()], "fig_facecolor": _arr(fig.get_facecolor()),
           "axes": []}
    for ax in fig.axes:
        a = {
            "xlabel": ax.get_xlabel(), "ylabel": ax.get_ylabel(), "title": ax.get_title(),
            "xscale": ax.get_xscale(), "yscale": ax.get_yscale(), "visible": bool(ax.get_visible()),
            "xticks": _arr(ax.get_xticks()), "yticks": _arr(ax.get_yticks()),
            "facecolor": _arr(ax.get_facecolor()), "frame_on": bool(ax.get_frame_on()),
            "spines_visible": sorted(k for k, sp in ax.spines.items() if sp.get_visible()),
            "grid": [bool(ax.xaxis._major_tick_kw.get("gridOn", False)), bool(ax.yaxis._major_tick_kw.get("gridOn", False))],
            "tick_fontsize": [round(float(t.get_fontsize()), 6) for t in (ax.get_xticklabels()[:1] + ax.get_yticklabels()[:1])],
            "xlim": _arr(ax.get_xlim()), "ylim": _arr(ax.get_ylim()),
            "xticklabels": [t.get_text() for t in ax.get_xticklabels()],
            "yticklabels": [t.get_text() for t in ax.get_yticklabels()],
            "lines": [], "collections": [], "images": [], "texts": [], "patches": [],
        }
        for ln in ax.lines:
            a["lines"].append({"x": _arr(ln.get_xdata()), "y": _arr(ln.get_ydata()), "color": canon(ln.get_color()),
                               "lw": round(float(ln.get_linewidth()), 6), "marker": str(ln.get_marker()),
                               "ls": str(ln.get_linestyle()), "ds": str(ln.get_drawstyle())})
        for col in ax.collections:
            c = {"type": type(col).__name__}
            try:
                c["offsets"] = _arr(col.get_offsets())
            except Exception:
                pass
            try:
                arr = col.get_array()
                c["array"] = None if arr is None else _arr(arr)
            except Exception:
                pass
            try:
                c["facecolors"] = _arr(col.get_facecolors())
            except Exception:
                pass
            try:  # colours that are only encoded in the collection's colormap (e.g. seaborn's row_colors mesh)
                arr = col.get_array()
                if arr is not None and np.size(arr) <= 4096:
                    c["rgba"] = _arr(col.to_rgba(np.asarray(arr)))
            except Exception:
                pass
            try:
                if hasattr(col, "get_segments"):
                    c["segments"] = [_arr(s) for s in col.get_segments()][:200]
            except Exception:
                pass
            a["collections"].append(c)
        for im in ax.images:
            d = {"array": _arr(im.get_array()), "extent": _arr(im.get_extent())}
            try:
                if np.size(im.get_array()) <= 4096:
                    d["rgba"] = _arr(im.to_rgba(np.asarray(im.get_array())))
            except Exception:
                pass
            a["images"].append(d)
        for t in ax.texts:
            a["texts"].append({"text": t.get_text(), "xy": _arr(t.get_position()), "weight": str(t.get_fontweight()),
                               "color": canon(t.get_color())})
        for p in ax.patches:
            d = {"type": type(p).__name__, "fc": _arr(p.get_facecolor())}
            try:
                if hasattr(p, "get_xy") and hasattr(p, "get_width"):
                    d["rect"] = _arr(list(p.get_xy()) + [p.get_width(), p.get_height()])
                else:
                    ext = p.get_path().get_extents(p.get_patch_transform() if hasattr(p, "get_patch_transform") else None)
                    d["ext"] = _arr(ext.get_points())
            except Exception:
                pass
            a["patches"].append(d)
        try:
            leg = ax.get_legend()
            a["legend"] = None if leg is None else [t.get_text() for t in leg.get_texts()]
        except Exception:
            a["legend"] = "unreadable"
        out["axes"].append(a)
    try:
        out["fig_legends"] = [[t.get_text() for t in lg.get_texts()] for lg in fig.legends]
    except Exception:
        pass
    # seaborn ClusterGrid extras
    for name in ("data2d",):
        if hasattr(x, name):
            out[name] = canon(np.asarray(getattr(x, name)))
    for name in ("dendrogram_row", "dendrogram_col"):
        d = getattr(x, name, None)
        if d is not None and hasattr(d, "reordered_ind"):
            out[name] = canon(list(d.reordered_ind))
    return out


# ---------------------------------------------------------------------------------------------
# tolerant comparison
# ---------------------------------------------------------------------------------------------
def close(a, b, path="$"):
    """None if a and b agree (floats within REL), else a short description of the first difference."""
    if isinstance(a, float) or isinstance(b, float):
        if isinstance(a, (int, float)) and isinstance(b, (int, float)) and not isinstance(a, bool) and not isinstance(b, bool):
            if a == b:
                return None
            if abs(a - b) <= REL * max(abs(a), abs(b)) + 1e-300:
                return None
            return "%s: %r != %r" % (path, a, b)
        return "%s: %r != %r" % (path, a, b)
    if type(a) is not type(b):
        return "%s: type %s != %s (%s vs %s)" % (path, type(a).__name__, type(b).__name__, _s(a), _s(b))
    if isinstance(a, dict):
        if sorted(a) != sorted(b):
            return "%s: keys %r != %r" % (path, sorted(a), sorted(b))
        for k in sorted(a):
            d = close(a[k], b[k], "%s.%s" % (path, k))
            if d:
                return d
        return None
    if isinstance(a, list):
        if len(a) != len(b):
            return "%s: length %d != %d (%s vs %s)" % (path, len(a), len(b), _s(a), _s(b))
        for i, (x, y) in enumerate(zip(a, b)):
            d = close(x, y, "%s[%d]" % (path, i))
            if d:
                return d
        return None
    if a != b:
        return "%s: %s != %s" % (path, _s(a), _s(b))
    return None


def _s(x):
    r = repr(x)
    return r if len(r) <= 120 else r[:117] + "..."


# ---------------------------------------------------------------------------------------------
# snapshots of caller-owned objects (by value)
# ---------------------------------------------------------------------------------------------
def snap(x, depth=0):
    """Structural snapshot by value, exact (no tolerance): the caller's object must be untouched."""
    if depth > 8:
        return ["deep"]
    if isinstance(x, pd.DataFrame):
        return ["df", [repr(c) for c in x.columns], [repr(i) for i in x.index], [_dtype_detail(t) for t in x.dtypes], str(x.index.dtype),
                str(x.columns.dtype),
                [[_cell(v) for v in row] for row in x.to_numpy(dtype=object).tolist()], repr(x.index.names), repr(x.columns.names),
                repr(sorted(x.attrs.items(), key=repr))]
    if isinstance(x, pd.Series):
        return ["series", _dtype_detail(x.dtype), str(x.index.dtype), repr(x.name), [repr(i) for i in x.index], [_cell(v) for v in x.tolist()], repr(x.index.name),
                repr(sorted(x.attrs.items(), key=repr))]
    if isinstance(x, np.ndarray):
        if x.dtype == object:
            return ["nd", "object", list(x.shape), [_cell(v) for v in x.ravel().tolist()], bool(x.flags.writeable)]
        return ["nd", str(x.dtype), list(x.shape), x.tobytes().hex(), bool(x.flags.writeable)]
    if isinstance(x, dict):
        return ["dict", [[repr(k), snap(v, depth + 1)] for k, v in x.items()]]  # order is part of a dict's state
    if isinstance(x, list):
        return ["list", [snap(v, depth + 1) for v in x]]
    if isinstance(x, tuple):
        return ["tuple", [snap(v, depth + 1) for v in x]]
    if isinstance(x, (set, frozenset)):
        return ["set", sorted(repr(v) for v in x)]
    if isinstance(x, (str, int, float, bool, bytes, type(None))):
        return _cell(x)
    if isinstance(x, type):
        return ["class", x.__module__, x.__qualname__]
    if isinstance(x, enum.Enum):
        return ["enum", repr(x)]
    if isinstance(x, (types.FunctionType, types.BuiltinFunctionType, types.MethodType)):
        return ["callable", getattr(x, "__module__", ""), getattr(x, "__qualname__", type(x).__name__)]
    if isinstance(x, range):
        return ["range", x.start, x.stop, x.step]
    # Instances of library classes (database objects, metric objects) are not "lists, arrays, Series, tables or
    # option dictionaries": their private bookkeeping may change (a correct cache is legal).  What they do to later
    # results is the history oracle's business, and the caller-owned containers they hold are snapshotted separately.
    return ["opaque", type(x).__name__]


def _dtype_detail(t):
    """str(dtype) plus what str() hides: a categorical's categories (in order) and its ordered flag."""
    if isinstance(t, pd.CategoricalDtype):
        return ["category", [repr(c) for c in t.categories], bool(t.ordered), str(t.categories.dtype)]
    return str(t)


def _cell(v):
    if _is_missing(v):
        return MISSING + ":" + type(v).__name__
    if isinstance(v, float):
        return ["f", v.hex()]
    return [type(v).__name__, repr(v)]


def snap_deep(x, depth=0):
    """Like snap(), but descends into the attributes of library objects (diagnostics: did a database / metric object's
    private state change?).  Never used as an oracle."""
    d = getattr(x, "__dict__", None)
    if isinstance(d, dict) and not isinstance(x, (type, types.FunctionType)) and depth < 4:
        return ["obj", type(x).__name__, [[k, snap_deep(v, depth + 1)] for k, v in sorted(d.items())]]
    if isinstance(x, dict) and depth < 4:
        return ["dict", len(x), digest_light(x)]
    return snap(x, depth)


def digest_light(d):
    import hashlib

    h = hashlib.sha256()
    for k in d:
        h.update(repr(k).encode())
        h.update(repr(d[k])[:200].encode())
    return h.hexdigest()[:12]
