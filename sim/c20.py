"""C20 — calls are pure: arguments stay untouched and results ignore call history.

A run is a seeded history of 4-12 public-API calls (templates from c20_catalogue) over a shared heap
of long-lived caller-owned objects, with up to two injected faults.  After every call:
  arg_mutated        every heap object the call received equals its snapshot taken before the call;
  history_dependent  the canonical outcome equals the outcome of the same call executed alone in a
                     pristine process (table built once per batch, one pristine child per op).
"""
import collections
import os
import contextlib
import io
import math
import random
import sys
import types

from .core import HarnessError, InjectedCallbackError, InjectedInterrupt, derive_seed, digest
from .faults import FaultyCallable, LineInterrupt, ReadCsvError
from .simpool import CTL

PROP = "C20"
RUN_TIMEOUT = 180
RAND_SEEDS = [11, 22]
TIERS = {
    "quick": {"runs": 2200, "budget_s": 85, "selftest_seeds": 8},
    "thorough": {"runs": 60000, "budget_s": 1800, "selftest_seeds": 48, "selftest_cross": True, "cold_check": True},
}
RULE = ("one run = seeded history of 4-12 op templates (public pyrepseq calls with literal arguments taken from a shared "
        "heap of caller-owned objects), swarm per run: enabled groups, co-scheduling of templates that share a function "
        "group, forced polluter->victim pairs, <= 2-6 faults (callback_raise, fork_fail, io_error, async_interrupt; natural "
        "raises are ordinary templates), seeded pool schedule; two runs in five are interrupt-sweep runs (three templates in a fixed rotation "
        "through the catalogue, each interrupted at a seeded position and followed by a victim of its group), one in five is a caller-mutation "
        "sweep run (template T, the caller changes one of the objects T reads, T again; (object, template) pairs in rotation). distinct = hash of the sequence of (template, rng seed, "
        "fault kind, fired, fault position class). non-trivial = at least 2 calls executed.")
SIMULATED_TIME_NOTE = "no simulated clock (code reads none); logical time = op index; async interrupts are placed on pyrepseq line events"
COMPONENTS = {
    "real": ["every public callable of pyrepseq.nn/stats/distance/entropy/clustering/io/util/plotting/metric reachable here",
             "matplotlib (Agg) / seaborn / logomaker / scipy / igraph / sklearn / tidytcells", "forked pool workers"],
    "stub": ["pool dispatcher (SimPool)", "pandas.read_csv raising EIO in io_error ops", "Pool() raising EAGAIN in fork_fail ops"],
    "absent": ["pwseqdist, tcrdist3, mafft: the functions needing them only ever appear as calls that raise"],
}
ASSUMPTIONS = [
    "outcomes canonicalised: floats rel. 1e-9, API-level sets sorted, figures reduced to artist-data fingerprints, missing values one token",
    "pristine = forked child of a process that imported pyrepseq and never called it (thorough tier cross-checks a cold interpreter)",
    "randomised ops: np.random.seed and random.seed are both set (python-igraph draws from 'random'); deterministic ops are not reseeded",
    "plt.close('all') before every op in both worlds (pyplot's current figure is matplotlib's documented global)",
    "a faulted op's own outcome is exempt from history_dependent only; it must terminate and must not modify its arguments",
    "thread-safety, identical warnings, ordering inside API-level sets and byte-identical floats are not demanded",
    "defaults/global diffs are diagnostics; only a changed later result is a violation",
    "sampling, not proof",
]


def _cat():
    from . import c20_catalogue

    return c20_catalogue


def op_key(op):
    return op["op"] if op.get("rng_seed") is None else "%s#%d" % (op["op"], op["rng_seed"])


def table_key(op, mutated, table):
    """Key of the pristine outcome to compare with: the template itself, or its 'after the caller changed X' variant.
    Which heap objects a template reads is taken from its own pristine execution (exact), not from its source text."""
    k = op_key(op)
    if mutated:
        uses = (table.get(k) or {}).get("heap", ())
        hit = sorted(x for x in mutated if x in uses)
        if hit:
            return k + "@" + hit[0]
    return k


# ---------------------------------------------------------------------------------------------
# heap
# ---------------------------------------------------------------------------------------------
class Heap:
    def __init__(self, premutate=()):
        self.objs = {}
        self.touched = {}
        self.premutate = set(premutate)  # pristine executions of a "template after the caller changed X" variant
        self.caller_mutated = set()

    def mutate(self, name):
        """The caller changes its own object ``name`` in place (op '@mutate')."""
        cat = _cat()
        if name not in self.objs:
            fn = cat.HEAP[name]
            self.objs[name] = fn(self) if fn.__code__.co_argcount else fn()
        cat.MUTATIONS[name](self.objs[name])
        self.caller_mutated.add(name)
        self.touched.pop(name, None)

    def begin_op(self):
        self.touched = {}
        for k in [k for k in self.objs if k.startswith("~")]:  # argument objects of the previous random-argument template
            del self.objs[k]

    def arg(self, name, obj):
        """A caller-owned argument object built by a random-argument template: snapshotted like a heap object for this op."""
        from .canon import snap

        key = "~" + name
        self.objs[key] = obj
        self.touched[key] = snap(obj)
        return obj

    def __getitem__(self, name):
        from .canon import snap

        cat = _cat()
        if name not in self.objs:
            fn = cat.HEAP[name]
            self.objs[name] = fn(self) if fn.__code__.co_argcount else fn()
            if name in self.premutate:
                cat.MUTATIONS[name](self.objs[name])
                self.caller_mutated.add(name)
        obj = self.objs[name]
        if name not in self.touched:
            self.touched[name] = snap(obj)
        for dep in cat.DEPENDS.get(name, ()):  # caller-owned containers held inside a library object
            self[dep]
        return obj

    def library_state(self):
        """Deep state of the library objects (database / metric instances) touched by the current op: diagnostics only."""
        from .canon import snap_deep

        out = {}
        for name in self.touched:
            obj = self.objs[name]
            if type(obj).__module__.startswith("pyrepseq"):
                out[name] = digest(snap_deep(obj))
        return out

    def mutated(self):
        from .canon import close, snap

        for name, before in self.touched.items():
            after = snap(self.objs[name])
            if after != before:
                return name, (close(before, after) or "snapshots differ")
        return None


@contextlib.contextmanager
def quiet():
    old_err, old_out = sys.stderr, sys.stdout
    sys.stderr = io.StringIO()
    sys.stdout = io.StringIO()
    try:
        yield
    finally:
        sys.stderr, sys.stdout = old_err, old_out


def rng_state_digest():
    import numpy as np

    st = np.random.get_state()
    return digest([st[0], bytes(memoryview(st[1])).hex(), int(st[2]), int(st[3]), float(st[4]), repr(random.getstate())])


def run_op(spec, heap, rng_seed=None, cb=None, fault_ctx=None, keep=None, reseed=True, info=None):
    """Execute one template and return its canonical outcome; the raw value is appended to ``keep``."""
    import warnings

    import matplotlib.pyplot as plt
    import numpy as np

    from .canon import canon

    plt.close("all")
    heap.begin_op()
    if spec.cb is not None and cb is None:
        cb = spec.cb
    if spec.rand and reseed:
        np.random.seed(rng_seed)
        random.seed(rng_seed)
    r0 = rng_state_digest() if info is not None else None
    val = None
    try:
        # (no warnings.catch_warnings() around the call: it would restore the process-wide warning filters afterwards and so
        # hide a call that leaves them changed; the vcheck process starts with filterwarnings("ignore"), output is swallowed)
        with quiet():
            with (fault_ctx if fault_ctx is not None else contextlib.nullcontext()):
                val = spec.fn(heap, cb=cb) if spec.cb is not None else spec.fn(heap)
            out = ["value", None]
    except HarnessError:
        raise
    except InjectedInterrupt:
        out = ["fault", "async_interrupt"]
    except InjectedCallbackError:
        out = ["fault", "callback_raise"]
    except Exception as e:
        out = ["raise", type(e).__name__]
    finally:
        sys.settrace(None)
    if info is not None:
        # did the call leave NumPy's and Python's global generators exactly as it found them (after the seeding, if any)?
        info["rng_neutral"] = rng_state_digest() == r0
    if out[0] == "value":
        try:
            with warnings.catch_warnings(), quiet():
                warnings.simplefilter("ignore")
                if keep is not None:
                    keep.append(val)
                if spec.post is not None:
                    val = spec.post(val)
                out[1] = canon(val)
        except Exception as e:
            raise HarnessError("canonicalisation of the result of %s failed: %s: %s" % (spec.name, type(e).__name__, e))
    return out


# ---------------------------------------------------------------------------------------------
# diagnostics: defaults and module globals
# ---------------------------------------------------------------------------------------------
def _modules():
    import pyrepseq

    root = pyrepseq.__name__
    return {n: m for n, m in list(sys.modules.items()) if (n == root or n.startswith(root + ".")) and m is not None}


def state_snapshot():
    from .canon import snap

    fns, globs = {}, {}
    for mname, mod in sorted(_modules().items()):
        for k, v in sorted(vars(mod).items()):
            if k.startswith("__"):
                continue
            if isinstance(v, types.FunctionType) and getattr(v, "__module__", "") == mname:
                fns["%s.%s" % (mname, k)] = digest([snap(v.__defaults__), snap(v.__kwdefaults__)])
            elif isinstance(v, type) and getattr(v, "__module__", "") == mname:
                for ck, cv in sorted(vars(v).items()):
                    if isinstance(cv, types.FunctionType):
                        fns["%s.%s.%s" % (mname, k, ck)] = digest([snap(cv.__defaults__), snap(cv.__kwdefaults__)])
                    elif not ck.startswith("__") and not callable(cv) and not isinstance(cv, (property, staticmethod, classmethod)):
                        globs["%s.%s.%s" % (mname, k, ck)] = digest(snap(cv))
            elif callable(v) and hasattr(v, "cache_info") and getattr(v, "__module__", "") == mname:
                # a memoised helper (functools.lru_cache / cache): its fill level is module state like any other global
                try:
                    ci = v.cache_info()
                    globs["%s.%s.cache" % (mname, k)] = digest([ci.misses, ci.currsize])
                except Exception:
                    pass
                continue
            elif isinstance(v, (types.ModuleType, type)) or callable(v):
                continue
            else:
                try:
                    globs["%s.%s" % (mname, k)] = digest(snap(v))
                except Exception:
                    globs["%s.%s" % (mname, k)] = "unsnappable"
    # process-wide settings of the dependencies that a call could leave changed (diagnostics only)
    try:
        import matplotlib as mpl
        import numpy as np
        import pandas as pd

        globs["env.numpy.geterr"] = digest(sorted(np.geterr().items()))
        globs["env.numpy.printoptions"] = digest(sorted((k, repr(v)) for k, v in np.get_printoptions().items()))
        globs["env.matplotlib.rcParams"] = digest(sorted((k, repr(v)) for k, v in mpl.rcParams.items()))
        globs["env.pandas.mode.chained_assignment"] = repr(pd.get_option("mode.chained_assignment")) if "chained_assignment" in dir(pd.options.mode) else ""
    except Exception:
        pass
    try:  # state outside the interpreter: the files of the run's private directory (cwd, HOME, TMPDIR) and the environment
        from . import farm as _farm

        globs["env.files"] = digest(sorted(_farm.sandbox_listing().items()))
        globs["env.os.environ"] = digest(sorted(_farm.sandbox_environ().items()))
        globs["env.cwd"] = os.path.relpath(os.getcwd(), _farm.SANDBOX) if _farm.SANDBOX else ""
        import locale as _locale
        import logging as _logging

        globs["env.interpreter"] = digest([sys.getrecursionlimit(), list(_locale.getlocale()), _logging.root.level, _logging.root.manager.disable,
                                           sorted(n for n, lg in _logging.root.manager.loggerDict.items()
                                                  if n.startswith("pyrepseq") and getattr(lg, "level", 0)),
                                           sys.getswitchinterval(), bool(sys.gettrace()), sys.getdefaultencoding()])
        import matplotlib.pyplot as _plt

        globs["env.pyplot.open_figures"] = len(_plt.get_fignums())
    except Exception:
        pass
    try:  # registries of the dependencies that pyrepseq's plotting / table code reads
        import warnings as _w

        import logomaker
        import matplotlib as mpl
        import pandas as pd
        import seaborn as sns

        globs["env.logomaker.color_schemes"] = digest(sorted((k, repr(v)) for k, v in logomaker.src.colors.COLOR_SCHEME_DICT.items()))
        globs["env.matplotlib.colormaps"] = digest(sorted(mpl.colormaps))
        globs["env.pandas.options"] = digest(sorted((k, repr(v)) for k, v in pd._config.config._global_config.items())) \
            if hasattr(pd, "_config") else ""
        globs["env.warnings.filters"] = digest([repr(f)[:120] for f in _w.filters][:60])
        globs["env.seaborn.axes_style"] = digest(sorted((k, repr(v)) for k, v in sns.axes_style().items()))
    except Exception:
        pass
    return fns, globs


# ---------------------------------------------------------------------------------------------
# generation
# ---------------------------------------------------------------------------------------------
FAMILY = {}
for _fam, _groups in {
    "search": ["kdtree", "hash_based", "symdel", "db", "validation", "tcrdist_nn"],
    "stat": ["pc", "entropy", "edge", "chao", "sets", "subsample", "powerlaw"],
    "dist": ["pdist", "pcDelta", "downsample", "background", "neighbors", "hclust", "metric"],
    "plot": ["rankfreq", "density", "logos", "labelaxes", "colors", "clustermap", "legend"],
    "table": ["standardize", "valid", "multimerge", "util", "graph"],
}.items():
    for _g in _groups:
        FAMILY[_g] = _fam


_PAIRS = {}


def same_group_pairs(tier="thorough"):
    """Ordered pairs of fixed templates of one group (computed once per tier, before the zygotes are forked)."""
    if tier not in _PAIRS:
        ops = _cat().OPS
        by_group = {}
        for n in sorted(n for n in ops if "~" not in n and (tier == "thorough" or not ops[n].huge)):
            by_group.setdefault(ops[n].group, []).append(n)
        _PAIRS[tier] = sorted((a, b) for g in by_group.values() for a in g for b in g)
    return _PAIRS[tier]


def generate(seed, tier, index=0, batch_seed=None):
    rng = random.Random(seed)
    ops = _cat().OPS
    active_targets = set(mutation_targets(batch_seed, tier)) if batch_seed is not None else set(_cat().MUTATIONS)
    rnames = rand_names(batch_seed, tier)
    names = sorted(n for n in ops if "~" not in n and (tier == "thorough" or not ops[n].huge)) + sorted(rnames)
    groups = sorted(set(ops[n].group for n in names))
    enabled = [g for g in groups if rng.random() < rng.choice([0.4, 0.7, 1.0])] or [rng.choice(groups)]
    faults_on = rng.random() < 0.6
    sw = {
        "groups": enabled,
        "n_ops": rng.randint(4, 12),
        "faults": [f for f in ("callback_raise", "fork_fail", "io_error", "async_interrupt") if rng.random() < 0.6] if faults_on else [],
        "coschedule": rng.choice([0.2, 0.45, 0.7]),
        "slow_weight": rng.choice([0.05, 0.15, 0.4]),
        "fault_budget": rng.choice([2, 2, 4, 6]),
        "p_interrupt": rng.choice([0.25, 0.5]),
    }
    sched = {"policy": "seeded", "seed": rng.getrandbits(32), "deliver_bias": rng.choice([0.1, 1.0, 1000.0]),
             "eager": rng.choice([0.0, 0.5, 1.0]), "timeout_p": rng.choice([0.0, 0.5])}
    if index % 5 in (1, 3):
        # interrupt sweep: two runs in five walk through the catalogue in a fixed rotation and interrupt three templates each at a
        # seeded position, so that every template is interrupted about equally often in every batch (uniformly random fault
        # placement leaves most templates un-interrupted in a quick batch); each is followed by a victim of its own group, and
        # the directed probes add more victims whenever the interrupt left any observable state behind
        slot = (index // 5) * 2 + (0 if index % 5 == 1 else 1)
        out = []
        for j in range(3):
            n = names[(slot * 3 + j) % len(names)]
            spec = ops[n]
            o = {"op": n, "fault": {"kind": "async_interrupt", "frac": round(rng.uniform(0.02, 1.0), 4)}}
            if spec.rand:
                o["rng_seed"] = rng.choice(RAND_SEEDS)
            out.append(o)
            same = [m for m in names if ops[m].group == spec.group and not ops[m].slow] or [n]
            v = {"op": rng.choice(same)}
            if ops[v["op"]].rand:
                v["rng_seed"] = rng.choice(RAND_SEEDS)
            out.append(v)
        sw = {"kind": "interrupt_sweep", "slot": slot, "faults": ["async_interrupt"]}
        return {"property": PROP, "seed": seed, "tier": tier, "swarm": sw, "ops": out, "sched": sched}
    if index % 5 == 2:
        # caller-mutation sweep: one run in five walks through the (object X, template T that reads X) pairs in a fixed rotation:
        # T ; the caller changes X ; T again (plus the directed probes)
        uses = _cat().USES
        xt = [(x, n) for x in sorted(_cat().MUTATIONS) for n in names if x in uses.get(n, ()) and not ops[n].slow]
        # five readers of one object per run, from a rotation over all (object, reader) pairs that is a bijection of the slot
        # number (stride coprime to the number of pairs), so that a batch of R runs covers R pairs and the thorough tier all of them
        slot = index // 5 + (batch_seed or 0)
        K = 5
        start = (slot * K) % len(xt)
        x = xt[start][0]
        readers = [n for (x2, n) in (xt[(start + j) % len(xt)] for j in range(K)) if x2 == x]
        out = []
        for n in readers:
            o = {"op": n}
            if ops[n].rand:
                o["rng_seed"] = rng.choice(RAND_SEEDS)
            out.append(o)
        again = [dict(o) for o in out]
        out.append({"op": "@mutate", "target": x})
        out += again  # (in a dynamic run the re-executions are also inserted by execute(); an explicit list keeps replays self-contained)
        others = [m for m in names if x in uses.get(m, ()) and not ops[m].slow]
        v = {"op": rng.choice(others)}
        if ops[v["op"]].rand:
            v["rng_seed"] = rng.choice(RAND_SEEDS)
        out.append(v)
        n = readers[0]
        sw = {"kind": "caller_mutation_sweep", "target": x, "template": n, "readers": len(readers), "faults": []}
        return {"property": PROP, "seed": seed, "tier": tier, "swarm": sw, "ops": out, "sched": sched}
    seq = []
    pairs = same_group_pairs(tier)
    if rnames and rng.random() < 0.2:
        # two random-argument templates of one base: same function, arguments that agree in part (what a careless cache key sees)
        first = rng.choice(rnames)
        base, _, sd = first.rpartition("~")
        sib = [n for n in rnames if n.rpartition("~")[0] == base and int(n.rpartition("~")[2]) // 16 == int(sd) // 16]
        seq.extend(rng.sample(sib, min(len(sib), rng.choice([2, 3]))))
        sw["forced_pair"] = list(seq[:2])
    elif tier == "thorough" and index < len(pairs):
        seq.extend(pairs[index])
        sw["forced_pair"] = list(pairs[index])
    elif rng.random() < 0.5:
        p = rng.choice(pairs)
        seq.extend(p)
        sw["forced_pair"] = list(p)
    elif rng.random() < 0.5:
        # polluter and victim from the same family (groups that share helpers), not necessarily the same group
        a = rng.choice(names)
        fam = FAMILY.get(ops[a].group)
        b = rng.choice([n for n in names if FAMILY.get(ops[n].group) == fam])
        seq.extend([a, b])
        sw["forced_pair"] = [a, b]
    pool = [n for n in names if ops[n].group in enabled]
    while len(seq) < sw["n_ops"]:
        used_groups = sorted(set(ops[n].group for n in seq))
        if seq and rng.random() < sw["coschedule"]:
            g = rng.choice(used_groups)
            if rng.random() < 0.6:
                cands = [n for n in names if ops[n].group == g]
            else:
                cands = [n for n in names if FAMILY.get(ops[n].group) == FAMILY.get(g)]
        else:
            cands = pool
        n = rng.choice(cands)
        if ops[n].slow and rng.random() > sw["slow_weight"]:
            continue
        seq.append(n)
    # faults without workload test nothing: make sure a carrier for every enabled specific fault kind is present
    carriers = {"callback_raise": [n for n in names if ops[n].cb is not None],
                "fork_fail": [n for n in names if ops[n].pool], "io_error": [n for n in names if ops[n].io]}
    for kind in ("callback_raise", "fork_fail", "io_error"):
        if kind in sw["faults"] and rng.random() < 0.7:
            seq.insert(rng.randrange(max(1, len(seq) - 1)), rng.choice(carriers[kind]))
    if rng.random() < 0.3:
        rng.shuffle(seq)
    # the caller changes one of its own objects between two calls that read it (stale caches keyed by identity or by part of the key)
    mut_plan = None
    if rng.random() < 0.55:
        uses = _cat().USES
        cands = [(i, x) for i, n in enumerate(seq) for x in sorted(uses.get(n, ())) if x in active_targets]
        if cands:
            i, x = rng.choice(cands)
            a = seq[i]
            same = [m for m in names if x in uses.get(m, ()) and ops[m].group == ops[a].group and not ops[m].slow] or [a]
            b = a if rng.random() < 0.4 else rng.choice(same)
            seq[i + 1:i + 1] = ["@mutate:" + x, b]
            mut_plan = x
            sw["caller_mutation"] = x
    out = []
    nfaults = 0
    for n in seq:
        if n.startswith("@mutate:"):
            out.append({"op": "@mutate", "target": n.split(":", 1)[1]})
            continue
        spec = ops[n]
        o = {"op": n}
        if spec.rand:
            o["rng_seed"] = rng.choice(RAND_SEEDS)
        if sw["faults"] and nfaults < sw["fault_budget"]:
            kinds = []
            if spec.cb is not None and "callback_raise" in sw["faults"] and rng.random() < 0.6:
                kinds.append("callback_raise")
            if spec.pool and "fork_fail" in sw["faults"] and rng.random() < 0.6:
                kinds.append("fork_fail")
            if spec.io and "io_error" in sw["faults"] and rng.random() < 0.6:
                kinds.append("io_error")
            if not kinds and "async_interrupt" in sw["faults"] and rng.random() < sw["p_interrupt"]:
                kinds.append("async_interrupt")
            if kinds:
                k = rng.choice(kinds)
                if k == "callback_raise":
                    o["fault"] = {"kind": k, "fail_at": rng.choice([1, 1, 2, 3, 5, 10, 50])}
                elif k == "async_interrupt":
                    if rng.random() < 0.15:
                        o["fault"] = {"kind": k, "k": rng.choice([1, 2, 3, 5])}
                    else:
                        o["fault"] = {"kind": k, "frac": round(rng.uniform(0.0, 1.0), 4)}
                else:
                    o["fault"] = {"kind": k}
                nfaults += 1
                out.append(o)
                # faults without a victim test nothing: follow the faulted op by a template of the same group / family
                if rng.random() < 0.6:
                    fam = FAMILY.get(spec.group)
                    same = [m for m in names if ops[m].group == spec.group and not ops[m].slow]
                    rel = [m for m in names if FAMILY.get(ops[m].group) == fam and not ops[m].slow]
                    v = rng.choice(same if (same and rng.random() < 0.7) else (rel or names))
                    vo = {"op": v}
                    if ops[v].rand:
                        vo["rng_seed"] = rng.choice(RAND_SEEDS)
                    out.append(vo)
                continue
        out.append(o)
    # "seed; deterministic call; randomised call": see execute()
    randomised = [n for n in names if ops[n].rand and not ops[n].slow]
    if rng.random() < 0.3 and randomised:
        dets = [i for i, o in enumerate(out) if o["op"] != "@mutate" and not ops[o["op"]].rand and not o.get("fault")]
        if dets:
            i = rng.choice(dets)
            out.insert(i + 1, {"op": rng.choice(randomised), "rng_seed": rng.choice(RAND_SEEDS)})
    for i in range(1, len(out)):
        a, b = out[i - 1], out[i]
        if b.get("rng_seed") is None or b.get("fault") or a["op"] == "@mutate" or a.get("fault") or rng.random() < 0.5:
            continue
        if ops[a["op"]].rand:
            # a randomised template may draw nothing on its path (downsample with a non-binding maxseqs): same seed, decided at run time
            b["rng_seed"] = a["rng_seed"]
        b["early_seed"] = True
    return {"property": PROP, "seed": seed, "tier": tier, "swarm": sw, "ops": out, "sched": sched}


# ---------------------------------------------------------------------------------------------
# execution
# ---------------------------------------------------------------------------------------------
def execute(trace, ctx=None):
    from .canon import close, snap

    ops = _cat().OPS
    table = (ctx or {}).get("pristine", {})
    CTL.configure(trace.get("sched"))
    heap = Heap()
    stats = collections.Counter()
    log, shape = [], []
    pairs, where = [], []
    diag_defaults, diag_globals = set(), set()
    violation = None
    done = []
    retained = []
    fns0, globs0 = state_snapshot()

    ops_list = [dict(o) for o in trace["ops"]]
    must = (ctx or {}).get("must_run") or []
    if must and trace.get("dynamic", True):
        k0 = must[int(trace.get("seed", 0)) % len(must)]
        n0, _, s0 = k0.partition("#")
        o0 = {"op": n0, "probe": True}
        if s0:
            o0["rng_seed"] = int(s0)
        ops_list.insert(0, o0)
    dynamic = trace.get("dynamic", True)
    triggers = 0
    lib_state = {}
    preseeded_for = None
    rng_probes = 0
    step = -1
    while step + 1 < len(ops_list) and len(ops_list) <= 40:
        step += 1
        op = ops_list[step]
        name = op["op"]
        if name == "@mutate":
            tgt = op["target"]
            if tgt in (ctx or {}).get("mutation_targets", ()) and not heap.caller_mutated:
                heap.mutate(tgt)
                stats["caller_mutations"] += 1
                # values handed back earlier that ARE this object (e.g. an input returned unchanged) change with it: the caller did that
                retained = [(a, b, v, snap(v)) for (a, b, v, _) in retained]
                shape.append(["@mutate", tgt, None, False, "mutate", None])
                log.append(["@mutate", tgt])
                if dynamic:
                    # the exact victims of a cache keyed by identity or by part of the key: every template this run already
                    # executed that read the object is executed again, now on the changed object
                    again, seen_k = [], set()
                    for prev in ops_list[:step]:
                        if prev["op"] == "@mutate" or prev.get("fault"):
                            continue
                        pk = op_key(prev)
                        if pk in seen_k or tgt not in (table.get(pk) or {}).get("heap", ()):
                            continue
                        seen_k.add(pk)
                        w = {"op": prev["op"], "probe": True}
                        if prev.get("rng_seed") is not None:
                            w["rng_seed"] = prev["rng_seed"]
                        again.append(w)
                    if again:
                        again = again[::-1][:6]  # most recent reader first: a single-entry cache still holds ITS entry
                        ops_list[step + 1:step + 1] = again
                        stats["directed_probes_inserted"] += len(again)
            else:
                stats["caller_mutations_skipped"] += 1
            continue
        spec = ops.get(name)
        if spec is None:
            raise HarnessError("unknown op template %r" % name)
        key = table_key(op, heap.caller_mutated, table)
        ref = table.get(key)
        if ref is None:
            if op.get("probe"):  # a directed probe whose reference is not in the table (replay of a partial table): skip it
                stats["probes_skipped_no_reference"] += 1
                continue
            raise HarnessError("no pristine outcome for %r in the context table" % key)
        if "@" in key:
            stats["ops_after_caller_mutation"] += 1
        if ref.get("unstable"):
            violation = {"oracle": "not_reproducible", "op": name, "step": step,
                         "detail": "%s executed alone in two pristine processes%s gave different results: %s" % (
                             key, " with the same NumPy seed" if spec.rand else "", ref["unstable"])}
            break
        fault = op.get("fault")
        cb, fctx, fc, tracer, rc = None, None, None, None, None
        fired = False
        if fault:
            kind = fault["kind"]
            if kind == "callback_raise" and spec.cb is not None:
                fc = FaultyCallable(spec.cb, fault["fail_at"])
                cb = fc
            elif kind == "fork_fail":
                CTL.fork_fail_at = len(CTL.pools)
            elif kind == "io_error":
                rc = ReadCsvError()
                fctx = rc
            elif kind == "async_interrupt":
                k = fault.get("k")
                if k is None:
                    k = max(1, int(math.ceil(fault["frac"] * max(1, ref.get("N", 1)))))
                    fault["k"] = k  # resolved placement is written back so that a replay file is self-contained
                tracer = LineInterrupt(k)
                fctx = tracer
        ff_before = CTL.fork_fail_fired
        if spec.cb is not None and cb is None:
            cb = spec.cb
        raw = []
        # "seed, deterministic call, randomised call": the caller seeds the generators BEFORE a deterministic call that leaves them
        # alone in its pristine execution; the randomised call after it is then not reseeded and must still equal its pristine
        # execution under that seed (a deterministic call that starts drawing from - or reseeding - the global generator changes it)
        nxt = ops_list[step + 1] if step + 1 < len(ops_list) else None
        use_preseed = bool(spec.rand and op.get("early_seed") and preseeded_for == step)
        if (nxt is not None and nxt.get("early_seed") and nxt.get("rng_seed") is not None and not fault and not use_preseed
                and (ref.get("rng_neutral") or not spec.rand) and "@" not in key
                and (not spec.rand or op.get("rng_seed") == nxt["rng_seed"])):
            # eligible: a template declared deterministic (on the unchanged tree every one of them leaves the generators alone in its
            # pristine execution - checked over the whole table) or a randomised one that drew nothing in its pristine execution
            if not spec.rand:  # (a randomised template that draws nothing is seeded by run_op itself, with the same seed)
                import numpy as _np

                _np.random.seed(nxt["rng_seed"])
                random.seed(nxt["rng_seed"])
            preseeded_for = step + 1
            stats["early_seed_pairs"] += 1
        info = {}
        out = run_op(spec, heap, op.get("rng_seed"), cb=cb, fault_ctx=fctx, keep=raw, reseed=not use_preseed, info=info)
        if use_preseed:
            stats["early_seed_randomised_ops_judged"] += 1
        rng_touched = (bool(ref.get("rng_neutral")) or not spec.rand) and not info.get("rng_neutral", True) and not fault and "@" not in key
        if use_preseed:
            preseed_note = " (not reseeded: the caller seeded the generators before the preceding call %s, which is deterministic or drew nothing when run alone)" % (done[-1] if done else "?")
        else:
            preseed_note = ""
        CTL.fork_fail_at = None
        if fault:
            kind = fault["kind"]
            # out[0] == 'fault': the injected exception surfaced (possibly raised inside a forked pool worker,
            # whose copy of the carrier holds the 'fired' flag)
            fired = bool((fc and fc.fired) or (tracer and tracer.fired) or (rc and rc.fired) or CTL.fork_fail_fired > ff_before
                         or out[0] == "fault")
            stats["fault_configured_" + kind] += 1
            stats[("fault_fired_" if fired else "fault_configured_not_fired_") + kind] += 1
            if tracer and tracer.fired and tracer.where:
                where.append("%s:%d" % tracer.where)
        stats["ops"] += 1
        stats["ops_raise" if out[0] == "raise" else ("ops_fault" if out[0] == "fault" else "ops_value")] += 1
        bystander = _bystander_report(out)
        if spec.pool:
            stats["pooled_ops"] += 1
        for prev in done:
            pairs.append(prev + ">" + key)
        if done and any(f for f in shape if f[2] and f[3]):
            stats["op_after_fired_fault"] += 1
        if done and any(f[4] == "raise" for f in shape):
            stats["op_after_natural_raise"] += 1
        done.append(key)
        posclass = None
        if fault and fault["kind"] == "async_interrupt":
            posclass = min(9, int(10 * fault["k"] / max(1, ref.get("N", 1))))
        shape.append([key, fault["kind"] if fault else None, bool(fault), fired, out[0], posclass])
        log.append([key, out if out[0] != "value" else ["value", digest(out[1])], fired])

        # oracle 1: arguments untouched
        m = heap.mutated()
        if bystander and not fired:
            # the template itself holds an object of the simulated caller that was NOT passed to the call (another open figure)
            # and reports that the call changed it
            violation = {"oracle": "bystander_modified", "op": name, "step": step,
                         "detail": "%s changed an object of the caller that it was not given: %s" % (name, bystander)}
        elif m:
            oid = "arg_mutated_on_interrupt" if (fired and fault["kind"] == "async_interrupt") else "arg_mutated"
            violation = {"oracle": oid, "op": name, "step": step,
                         "detail": "%s modified the caller's object %r: %s" % (name, m[0], m[1])}
        # oracle 2: same outcome as alone in a pristine process (faulted ops exempt)
        elif not fired:
            if out[0] != ref["outcome"][0] or (out[0] == "raise" and out[1] != ref["outcome"][1]):
                violation = {"oracle": "history_dependent", "op": name, "step": step,
                             "detail": "%s after %r: outcome %r, alone in a pristine process: %r" % (
                                 key, done[:-1][-4:], _brief(out), _brief(ref["outcome"]))}
            elif out[0] == "value":
                d = close(out[1], ref["outcome"][1])
                if d:
                    violation = {"oracle": "history_dependent", "op": name, "step": step,
                                 "detail": "%s after %r differs from its pristine execution at %s%s" % (key, done[:-1][-4:], d, preseed_note)}
        elif out[0] == "value" or out[0] == "raise":
            pass  # a fired fault that the call absorbed: its own outcome is not judged
        # oracle 3: a value returned earlier is the caller's from then on; a later call must not change it
        if violation is None:
            for (pstep, pkey, pval, psnap) in retained:
                if snap(pval) != psnap:
                    violation = {"oracle": "earlier_result_changed", "op": name, "step": step,
                                 "detail": "the value returned by %s at step %d changed while %s ran: %s" % (
                                     pkey, pstep, key, close(psnap, snap(pval)) or "snapshots differ")}
                    break
        if violation is None and raw and _retainable(raw[0]):
            retained.append((step, key, raw[0], snap(raw[0])))
            if len(retained) > 6:
                retained.pop(0)
        # diagnostics (never violations by themselves)
        fns1, globs1 = state_snapshot()
        for k2 in fns1:
            if fns0.get(k2) != fns1[k2]:
                diag_defaults.add(k2)
        for k2 in globs1:
            if globs0.get(k2) != globs1[k2]:
                diag_globals.add(k2)
        changed = [("default", k2) for k2 in fns1 if fns0.get(k2) != fns1[k2]] + \
                  [("global", k2) for k2 in globs1 if globs0.get(k2) != globs1[k2]]
        for hname, dg in heap.library_state().items():
            if hname in lib_state and lib_state[hname] != dg:
                changed.append(("heapobj", hname))
                diag_globals.add("heap." + hname)
            lib_state[hname] = dg
        fns0, globs0 = fns1, globs1
        if violation:
            break
        if rng_touched:
            # the template left the global generators alone in its pristine execution and drew from (or reseeded) them here:
            # no violation by itself - show what it does to a caller: seed; this call again; a randomised call (not reseeded)
            diag_globals.add("env.global_random_generators")
            stats["rng_touched_by_neutral_template"] += 1
            if dynamic and not op.get("probe") and rng_probes < 2:
                rng_probes += 1
                sd = op.get("rng_seed") if spec.rand else RAND_SEEDS[0]
                again = {"op": name, "probe": True}
                if spec.rand:
                    again["rng_seed"] = sd
                cheap = sorted(n for n in ops if "~" not in n and ops[n].rand and not ops[n].slow and ops[n].group in ("subsample", "downsample", "powerlaw"))
                victim = {"op": cheap[step % len(cheap)], "rng_seed": sd, "early_seed": True, "probe": True}
                if op_key(victim) in table:
                    ops_list[step + 1:step + 1] = [again, victim]
                    stats["directed_probes_inserted"] += 2
        # directed search (DESIGN 3.4, oracle 3): a state change is no violation, but it says where to look next
        # the kdtree parameter block is rewritten by every kdtree call (the expected benign case): follow it up one time in three
        if changed and all(n == "pyrepseq.nn._cal_params" for _, n in changed):
            import zlib

            if zlib.crc32(("%s/%d" % (key, step)).encode()) % 3:
                changed = []
        if dynamic and changed and triggers < 2 and not op.get("probe"):
            probes = pick_probes(op, spec, changed, table, ops)
            if probes:
                ops_list[step + 1:step + 1] = probes
                triggers += 1
                stats["directed_probe_triggers"] += 1
                stats["directed_probes_inserted"] += len(probes)

    stats["defaults_changed_events"] = len(diag_defaults)
    summ = CTL.summary()
    stats["pools"] = summ["pools"]
    stats["sched_events"] = summ["events"]
    stats["out_of_order_delivery"] = summ["out_of_order_delivery"]
    stats["seam_timed_wait_expired"] = summ.get("timed_wait_expired", 0)
    stats["seam_sleep_calls"] = summ.get("sleep_seam_calls", 0)
    return {
        "violation": violation,
        "digest": digest([log, CTL.decisions]),
        "stats": dict(stats),
        "sets": {"ordered_pairs": pairs, "interrupted_lines": where, "defaults_changed": sorted(diag_defaults),
                 "globals_changed": sorted(diag_globals), "templates_executed": done},
        "sig": digest(shape),
        "nontrivial": len(done) >= 2,
        "executed_ops": ops_list[:step + 1] if violation else ops_list,
        "sched_decisions": CTL.decisions[:200],
    }


def _bystander_report(out):
    """Templates of the 'bystander' kind return ['__bystander__', <'' or what changed>, ...]: they hold an object of the simulated caller
    that is NOT passed to the call under test (another open figure) and compare its fingerprint before and after the call themselves."""
    if out and out[0] == "value":
        v = out[1]
        if isinstance(v, list) and len(v) >= 2 and v[0] == "__bystander__" and isinstance(v[1], str) and v[1]:
            return v[1][:300]
    return None


def pick_probes(op, spec, changed, table, ops):
    """Deterministic choice of follow-up templates after ``op`` changed some state: the same template again (other seed
    if randomised), templates that use the same library object, the numerical-edge templates when a dependency's
    process-wide setting changed, and siblings of the same group."""
    import zlib

    def rot(names, k, salt):
        """k names spread evenly over the sorted list (neighbouring names are near-identical templates), from a keyed offset."""
        names = sorted(names)
        if not names:
            return []
        k = min(k, len(names))
        off = zlib.crc32((op_key(op) + salt).encode()) % len(names)
        stride = max(1, len(names) // k)
        picked = [names[(off + i * stride) % len(names)] for i in range(k)]
        return list(dict.fromkeys(picked))

    want = []
    seed = op.get("rng_seed")
    again = []
    if spec.rand:
        again.append({"op": op["op"], "rng_seed": RAND_SEEDS[1] if seed == RAND_SEEDS[0] else RAND_SEEDS[0]})
    again.append({"op": op["op"], "rng_seed": seed} if spec.rand else {"op": op["op"]})
    if not op.get("fault"):
        want += again  # (after a fault the same template goes LAST: completing normally it may restore what the fault left behind)
    kinds = set(k for k, _ in changed)
    names_changed = [n for _, n in changed]
    if any(n.startswith("env.") for n in names_changed):
        want += [{"op": n} for n in rot([n for n, o in ops.items() if o.group == "edge"], 8, "env")]
    for k, hname in changed:
        if k == "heapobj":
            users = [key.split("#")[0] for key, v in table.items() if hname in v.get("heap", ())]
            want += [{"op": n} for n in rot(set(users), 5, hname)]
    if kinds & {"global", "default", "heapobj"}:
        sib = [n for n, o in ops.items() if o.group == spec.group and (not o.slow or spec.slow)]
        few = spec.slow or all(n == "pyrepseq.nn._cal_params" for n in names_changed)
        # after a fault that left state behind, look harder: ten victims of the group instead of five
        want += [{"op": n} for n in rot(sib, 2 if few else (10 if op.get("fault") else 5), "sib")]
        if op.get("fault") and not few:
            fam = [n for n, o in ops.items() if FAMILY.get(o.group) == FAMILY.get(spec.group) and o.group != spec.group and not o.slow]
            want += [{"op": n} for n in rot(fam, 4, "fam")]
    if op.get("fault"):
        want += again
    out, seen = [], set()
    for w in want:
        o = ops.get(w["op"])
        if o is None:
            continue
        if o.rand and w.get("rng_seed") is None:
            w["rng_seed"] = RAND_SEEDS[len(out) % 2]
        if not o.rand:
            w.pop("rng_seed", None)
        k = op_key(w)
        if k in seen and k != op_key(op):
            continue
        seen.add(k)
        w["probe"] = True
        out.append(w)
    return out[:20]


def _retainable(v, depth=0):
    """Plain data only (arrays, tables, containers of scalars); iterators and figures are not retained."""
    import numpy as np
    import pandas as pd

    if isinstance(v, (np.ndarray, pd.DataFrame, pd.Series)):
        return v.size < 20000
    if isinstance(v, (list, tuple)):
        return depth < 3 and len(v) < 5000 and all(_retainable(x, depth + 1) for x in v[:50])
    if isinstance(v, dict):
        return depth < 3 and all(_retainable(x, depth + 1) for x in list(v.values())[:50])
    return isinstance(v, (str, int, float, bool, type(None), np.generic))


def _brief(out):
    if out[0] == "value":
        r = repr(out[1])
        return "value " + (r if len(r) < 160 else r[:157] + "...")
    return " ".join(str(x) for x in out)


# ---------------------------------------------------------------------------------------------
# pristine table
# ---------------------------------------------------------------------------------------------
def run_extra(job, ctx):
    if job["kind"] == "pristine":
        return pristine_outcome(job["op"], job.get("rng_seed"), job.get("mutated"), traced=(job.get("rep") == 1))
    raise HarnessError("unknown job kind %r" % job["kind"])


def pristine_outcome(name, rng_seed, mutated=None, traced=False):
    """One template alone in this (pristine) process.  The second pristine process of a key runs it under the counting line
    tracer: its outcome is the reproducibility witness, and it yields the op's length N (for fault placement), the pyrepseq
    lines it executes and the heap objects it reads."""
    spec = _cat().OPS[name]
    CTL.configure({"policy": "fifo"})
    pre = (mutated,) if mutated else ()
    if not traced:
        return {"outcome": run_op(spec, Heap(premutate=pre), rng_seed, cb=spec.cb)}
    lines = set()
    counter = LineInterrupt(None, record=lines, max_count=30000)  # (interrupts land within the first 30000 line events)
    h = Heap(premutate=pre)
    info = {}
    out = run_op(spec, h, rng_seed, cb=spec.cb, fault_ctx=counter, info=info)
    return {"outcome": out, "N": counter.count, "lines": sorted(lines), "heap": sorted(h.touched), "rng_neutral": bool(info.get("rng_neutral"))}


RAND_TEMPLATES = {"quick": 360, "thorough": 2400}


def rand_names(batch_seed, tier):
    """The batch's random-argument templates: 'base~<n>' names, a pure function of the batch seed (rotating through the bases)."""
    if batch_seed is None:
        return []
    cat = _cat()
    bases = sorted(cat.RANDOPS)
    rng = random.Random(derive_seed(batch_seed, "C20-random-arguments", 0))
    out, seen = [], set()
    i = 0
    while len(out) < RAND_TEMPLATES[tier] and i < 20 * RAND_TEMPLATES[tier]:
        # a cluster of siblings: member 0 and two or three variations of it (catalogue.SiblingRandom)
        base, cluster = bases[i % len(bases)], rng.randrange(100000)
        i += 1
        for member in [0] + rng.sample(range(1, 16), rng.choice([2, 3])):
            name = "%s~%d" % (base, 16 * cluster + member)
            if name not in seen:
                seen.add(name)
                out.append(name)
    for n in out:
        cat.OPS[n]  # materialise
    return out


def all_keys(tier="thorough", batch_seed=None):
    ops = _cat().OPS
    keys = []
    for n in sorted(k for k in ops if "~" not in k) + sorted(rand_names(batch_seed, tier)):
        if ops[n].huge and tier != "thorough":
            continue
        if ops[n].rand:
            for s in RAND_SEEDS:
                keys.append({"op": n, "rng_seed": s})
        else:
            keys.append({"op": n})
    return keys


def build_table(farm, keys, harness_errors, full=True, salt=0):
    """Every key alone in its own pristine child, twice: once plain and once under the counting tracer (in a second pristine
    process).  The two outcomes must agree - the not_reproducible oracle; 'after the caller changed X' variants run once."""
    from .canon import close

    jobs = []
    for k in keys:
        if k.get("mutated"):
            jobs.append({"kind": "pristine", "op": k["op"], "rng_seed": k.get("rng_seed"), "mutated": k["mutated"], "rep": 0})
            continue
        for rep in (0, 1):
            jobs.append({"kind": "pristine", "op": k["op"], "rng_seed": k.get("rng_seed"), "rep": rep})
    got = {}
    for job, res in farm.run(jobs, RUN_TIMEOUT):
        key = op_key(job) + (("@" + job["mutated"]) if job.get("mutated") else "")
        if "harness_error" in res:
            harness_errors.append({"error": "pristine execution of %s failed: %s" % (key, res["harness_error"]), "tb": res.get("tb", "")[-800:]})
            continue
        got.setdefault(key, {})[job["rep"]] = res
    table = {}
    for key, rs in sorted(got.items()):
        if "@" in key:
            table[key] = dict(rs[0], N=1, heap=[])
            continue
        if 0 not in rs or 1 not in rs:
            continue
        entry = dict(rs[1], outcome=rs[0]["outcome"])
        a, b = rs[0]["outcome"], rs[1]["outcome"]
        d = None
        if a[0] != b[0] or (a[0] == "raise" and a[1] != b[1]):
            d = "%r vs %r" % (_brief(a), _brief(b))
        elif a[0] == "value":
            d = close(a[1], b[1])
        if d:
            # the same call, alone in two pristine processes (same seeds), gave different results: that is the
            # property's last clause failing by itself; reported through execute() so that it is replayable
            entry["unstable"] = d
        table[key] = entry
    return table


PREP_INFO = {}


def executable_lines():
    """(file, line) of every line of pyrepseq that carries code, from the compiled code objects."""
    import os

    from .core import repo_root

    root = os.path.join(repo_root(), "pyrepseq")
    out = set()
    for dirpath, _, files in os.walk(root):
        if "tcrdist" in dirpath.split(os.sep):
            continue  # cannot be imported here (tcrdist3 absent)
        for f in files:
            if not f.endswith(".py"):
                continue
            path = os.path.join(dirpath, f)
            rel = os.path.relpath(path, root)
            try:
                code = compile(open(path).read(), path, "exec")
            except Exception:
                continue
            stack = [code]
            while stack:
                c = stack.pop()
                if c.co_flags & 0x1:  # CO_OPTIMIZED: function bodies only (module and class bodies run at import)
                    for _, _, ln in c.co_lines():
                        if ln is not None and ln != c.co_firstlineno:
                            out.add((rel, ln))
                for k in c.co_consts:
                    if hasattr(k, "co_lines"):
                        stack.append(k)
    return out


def mutation_targets(batch_seed, tier):
    return sorted(_cat().MUTATIONS)


def variant_keys(targets, table):
    """(template, changed object) for every template whose pristine execution read that object."""
    cat = _cat()
    out = []
    for key in sorted(table):
        if "@" in key:
            continue
        n, _, sd = key.partition("#")
        if n not in cat.OPS:
            continue
        for x in sorted(targets):
            if x in table[key].get("heap", ()):
                k = {"op": n, "mutated": x}
                if sd:
                    k["rng_seed"] = int(sd)
                out.append(k)
    return out


def prepare(farm, batch_seed, tier, cfg, harness_errors):
    targets = mutation_targets(batch_seed, tier)
    table = build_table(farm, all_keys(tier, batch_seed), harness_errors, full=(tier == "thorough"), salt=batch_seed)
    PREP_INFO["random_argument_templates"] = {"bases": len(_cat().RANDOPS), "drawn_for_this_batch_seed": len(rand_names(batch_seed, tier))}
    table.update(build_table(farm, variant_keys(targets, table), harness_errors))
    PREP_INFO["caller_mutation_targets"] = targets
    ops_ = _cat().OPS
    touching = sorted(k for k, v in table.items() if "@" not in k and not ops_[k.split("#")[0]].rand and not v.get("rng_neutral", True))
    # on the unchanged tree: none (every template declared deterministic leaves NumPy's and Python's global generators alone)
    PREP_INFO["deterministic_templates_that_touch_the_global_generators"] = touching[:20]
    PREP_INFO["randomised_templates_that_draw_nothing_alone"] = sum(
        1 for k, v in table.items() if "@" not in k and ops_[k.split("#")[0]].rand and v.get("rng_neutral"))
    covered = set()
    for v in table.values():
        for fl in v.pop("lines", []):
            covered.add(tuple(fl))
    ex = executable_lines()
    per = {}
    for f, ln in ex:
        per.setdefault(f, [0, 0])[1] += 1
    for f, ln in covered & ex:
        per[f][0] += 1
    PREP_INFO["catalogue_line_reach"] = {"function_body_lines_executed": len(covered & ex), "function_body_lines_total": len(ex),
                                         "per_file": {f: "%d/%d" % tuple(v) for f, v in sorted(per.items())}}
    # templates whose PRISTINE execution already shows a defect (two pristine executions disagree; a bystander object changed): they are
    # put in front of the runs in rotation, so that the violation is reported by the first runs of the batch and not left to sampling
    must = sorted(k for k, v in table.items() if "@" not in k and (v.get("unstable") or _bystander_report(v.get("outcome"))))
    PREP_INFO["templates_with_a_defect_in_their_pristine_execution"] = must[:20]
    ctx = {"pristine": table, "mutation_targets": targets, "must_run": must[:50]}
    if cfg.get("cold_check"):
        PREP_INFO["batch_seed"] = batch_seed
        ncold = cold_check({k: v for k, v in table.items() if "@" not in k}, harness_errors, sample=cfg.get("cold_sample", 800))
        PREP_INFO["cold_interpreter_cross_check"] = {"templates_sampled": min(cfg.get("cold_sample", 800), sum(1 for k in table if "@" not in k)),
                                                     "executed_and_compared": ncold}
    return ctx


def prepare_replay(farm, trace, errs):
    seen, keys = set(), []
    targets = [op["target"] for op in trace["ops"] if op["op"] == "@mutate"]
    for op in trace["ops"]:
        if op["op"] == "@mutate":
            continue
        k = op_key(op)
        if k not in seen:
            seen.add(k)
            keys.append({"op": op["op"], "rng_seed": op.get("rng_seed")})
    table = build_table(farm, keys, errs)
    table.update(build_table(farm, variant_keys(targets, table), errs))
    for v in table.values():
        v.pop("lines", None)
    if errs:
        raise HarnessError("pristine table for replay failed: %r" % errs[:2])
    return {"pristine": table, "mutation_targets": targets}


def cold_check(table, harness_errors, sample=None):
    """Each distinct op once in a cold interpreter: fork-from-pristine-image == fresh interpreter."""
    import json
    import os
    import subprocess
    from concurrent.futures import ThreadPoolExecutor

    from .canon import close

    main = os.path.join(os.path.dirname(os.path.abspath(__file__)), "main.py")
    keys = sorted(table)
    if sample and len(keys) > sample:
        # an evenly spread subset that rotates with the batch seed (a cold interpreter costs 3 s of import per template)
        step_ = len(keys) / float(sample)
        off = (PREP_INFO.get("batch_seed") or 0) % max(1, int(step_))
        keys = [keys[min(len(keys) - 1, int(i * step_) + off)] for i in range(sample)]

    def one(key):
        name, _, s = key.partition("#")
        p = subprocess.run([sys.executable, main, "--cold-op", name, s or "none"], capture_output=True, text=True, timeout=600)
        try:
            return key, json.loads(p.stdout.strip().splitlines()[-1])
        except Exception:
            return key, {"error": (p.stdout + p.stderr)[-600:]}

    n = 0
    with ThreadPoolExecutor(max_workers=int(os.environ.get("VERIF_WORKERS", "16"))) as ex:
        for key, res in ex.map(one, keys):
            if "error" in res:
                harness_errors.append({"error": "cold-interpreter execution of %s failed" % key, "out": res["error"]})
                continue
            n += 1
            a, b = table[key]["outcome"], res["outcome"]
            d = None
            if a[0] != b[0] or (a[0] == "raise" and a[1] != b[1]):
                d = "%s vs %s" % (_brief(a), _brief(b))
            elif a[0] == "value":
                d = close(a[1], b[1])
            if d:
                harness_errors.append({"error": "forked-pristine and cold-interpreter outcomes of %s differ: %s" % (key, d)})
    return n


def cold_op(name, seed):
    import json

    out = run_op(_cat().OPS[name], Heap(), None if seed in (None, "none") else int(seed), cb=_cat().OPS[name].cb)
    print(json.dumps({"outcome": out}))
    return 0


def finish_coverage(cov, stats, sets):
    ops = _cat().OPS
    pairs = same_group_pairs()
    rk = {}
    for n, o in list(ops.items()):
        rk[n] = [n + "#%d" % s for s in RAND_SEEDS] if o.rand else [n]
    seen = sets.get("ordered_pairs", set())
    covered = 0
    for a, b in pairs:
        if any((x + ">" + y) in seen for x in rk[a] for y in rk[b]):
            covered += 1
    cov.update(PREP_INFO)
    static = [n for n in ops if "~" not in n]
    cov["catalogue"] = {"templates": len(static), "groups": len(set(ops[n].group for n in static)),
                        "heap_objects": len(_cat().HEAP), "pristine_keys": len(all_keys()),
                        "random_argument_bases": len(_cat().RANDOPS)}
    cov["same_group_ordered_pairs"] = {"covered": covered, "total": len(pairs)}
    cov["templates_executed_distinct"] = len(set(k.split("#")[0] for k in sets.get("templates_executed", set())))
    cov["defaults_changed_functions"] = sorted(sets.get("defaults_changed", set()))[:40]
    cov["globals_changed_names"] = sorted(sets.get("globals_changed", set()))[:40]
    lines = sorted(sets.get("interrupted_lines", set()))
    per_mod = collections.Counter(l.split(":")[0] for l in lines)
    cov["interrupted_distinct_lines_per_module"] = dict(sorted(per_mod.items()))


# ---------------------------------------------------------------------------------------------
# minimisation support
# ---------------------------------------------------------------------------------------------
def with_ops(trace, keep):
    return dict(trace, ops=[dict(trace["ops"][i]) for i in keep])


def candidates(trace):
    if trace.get("sched", {}).get("policy") != "fifo":
        yield dict(trace, sched={"policy": "fifo"})
    for i, op in enumerate(trace["ops"]):
        if op.get("fault"):
            ops = [dict(o) for o in trace["ops"]]
            ops[i].pop("fault")
            yield dict(trace, ops=ops)
            f = op["fault"]
            if f["kind"] == "async_interrupt" and f.get("k", 1) > 1:
                ops = [dict(o) for o in trace["ops"]]
                ops[i]["fault"] = dict(f, k=max(1, f["k"] // 2))
                yield dict(trace, ops=ops)
        if op.get("rng_seed") not in (None, RAND_SEEDS[0]):
            ops = [dict(o) for o in trace["ops"]]
            ops[i]["rng_seed"] = RAND_SEEDS[0]
            yield dict(trace, ops=ops)


def signature(trace, v):
    step = min(v.get("step", 0), len(trace["ops"]) - 1)
    victim = trace["ops"][step]["op"]
    before = [o["op"] if o["op"] != "@mutate" else "@mutate:" + o["target"] for o in trace["ops"][:step]]
    faults = sorted(set(o["fault"]["kind"] for o in trace["ops"] if o.get("fault")))
    return "/".join([PROP, v["oracle"], victim, "after:" + (",".join(before[-2:]) or "nothing"), "faults:" + (",".join(faults) or "none")])


# Import the catalogue in the vcheck process, before the zygotes are forked: building 900 templates (pairwise covering
# arrays included) takes ~0.2 s, which every job child would otherwise pay again.
_cat()
same_group_pairs("quick")
same_group_pairs("thorough")
