"""Independent reference implementations used as oracles (pure Python, no pyrepseq, no rapidfuzz)."""


def levenshtein(a, b):
    """Wagner-Fischer edit distance (unit costs)."""
    if a == b:
        return 0
    la, lb = len(a), len(b)
    if la == 0:
        return lb
    if lb == 0:
        return la
    prev = list(range(lb + 1))
    for i in range(1, la + 1):
        cur = [i] + [0] * lb
        ca = a[i - 1]
        for j in range(1, lb + 1):
            cost = 0 if ca == b[j - 1] else 1
            x = prev[j] + 1
            y = cur[j - 1] + 1
            z = prev[j - 1] + cost
            cur[j] = x if x < y else y
            if z < cur[j]:
                cur[j] = z
        prev = cur
    return prev[lb]


def hamming_or_none(a, b):
    """Number of mismatches for equal-length strings, None otherwise."""
    if len(a) != len(b):
        return None
    return sum(1 for x, y in zip(a, b) if x != y)


def two_collection_model(queries, reference, k, mode):
    """All (q, r, d) with d = distance(queries[q], reference[r]) <= k; sorted list."""
    out = []
    memo = {}  # distinct (query string, reference string) -> distance or None (repertoires repeat their strings)
    for q, s in enumerate(queries):
        for r, t in enumerate(reference):
            key = (s, t)
            if key in memo:
                d = memo[key]
            elif mode == "hamming":
                d = memo[key] = hamming_or_none(s, t)
            elif abs(len(s) - len(t)) > k:  # exact lower bound of the edit distance: saves the table for hopeless pairs
                d = memo[key] = None
            else:
                d = memo[key] = levenshtein(s, t)
            if d is not None and d <= k:
                out.append((q, r, d))
    out.sort()
    return out


def canon_triplets(res):
    """Sorted list of (int, int, number) from whatever the API returned as 'triplets'."""
    out = []
    for t in res:
        i, j, d = t
        d = float(d)
        if d == d and abs(d) != float("inf") and d == int(d):
            d = int(d)
        out.append((int(i), int(j), d))
    out.sort()
    return out
