"""Fault carriers.  Each records whether it actually FIRED (not merely was configured)."""
import errno
import os
import sys
import threading

from .core import InjectedCallbackError, InjectedInterrupt, repo_root


class FaultyCallable:
    """Wraps a callback; raises InjectedCallbackError at invocation number ``fail_at`` (1-based).

    Invocations made by argument validation (custom_distance(first, first)) count like any other:
    the placement is 'the k-th time pyrepseq calls the user's function'."""

    def __init__(self, base, fail_at):
        self.base = base
        self.fail_at = fail_at
        self.calls = 0
        self.fired = False

    def __call__(self, *a, **k):
        self.calls += 1
        if self.fail_at is not None and self.calls == self.fail_at:
            self.fired = True
            raise InjectedCallbackError("injected failure at callback invocation %d" % self.calls)
        return self.base(*a, **k)


class LineInterrupt:
    """sys.settrace tracer raising InjectedInterrupt at the k-th 'line' event inside pyrepseq frames.

    With k=None it only counts (used to measure an op's length N before placing a fault in [1, N]).
    """

    def __init__(self, k=None, record=None, max_count=None):
        self.k = k
        self.max_count = max_count  # counting mode: stop tracing after this many events (bounds the cost of long templates)
        self.record = record  # optional set collecting (relative file, line) of every pyrepseq line executed
        self.prefix = os.path.join(repo_root(), "pyrepseq") + os.sep
        self.count = 0
        self.fired = False
        self.where = None

    def _global(self, frame, event, arg):
        if frame.f_code.co_filename.startswith(self.prefix):
            return self._local
        return None

    def _local(self, frame, event, arg):
        if event == "line":
            if self.max_count is not None and self.count >= self.max_count:
                return None
            self.count += 1
            if self.record is not None:
                self.record.add((frame.f_code.co_filename[len(self.prefix):], frame.f_lineno))
            if self.max_count is not None and self.count >= self.max_count:
                sys.settrace(None)
                return None
            if self.k is not None and self.count == self.k and not self.fired:
                self.fired = True
                self.where = (os.path.relpath(frame.f_code.co_filename, self.prefix), frame.f_lineno)
                sys.settrace(None)
                raise InjectedInterrupt("injected interrupt at pyrepseq line event %d" % self.count)
        return self._local

    def __enter__(self):
        sys.settrace(self._global)
        return self

    def __exit__(self, *exc):
        sys.settrace(None)
        return False


class ReadCsvError:
    """pandas.read_csv raises OSError(EIO) for the duration of one op (fault kind io_error)."""

    def __init__(self):
        self.fired = False

    def __enter__(self):
        import pandas as pd

        self._pd = pd
        self._orig = pd.read_csv

        def failing(*a, **k):
            self.fired = True
            raise OSError(errno.EIO, "Input/output error (injected io_error)")

        pd.read_csv = failing
        return self

    def __exit__(self, *exc):
        self._pd.read_csv = self._orig
        return False


class RngBoundary:
    """Overwrite chosen uniforms returned by np.random.rand / random_sample with legal extremes.

    ``plan`` is a list of [draw_position_fraction, value_code]; value_code 0 -> 0.0,
    1 -> 1 - 2**-53 (the largest double below 1).  Applied to the first array-valued draw."""

    HI = 1.0 - 2.0 ** -53

    def __init__(self, plan):
        self.plan = plan
        self.fired = 0

    def __enter__(self):
        import numpy as np

        self._np = np
        self._orig = {}
        for name in ("rand", "random_sample", "random"):
            if hasattr(np.random, name):
                self._orig[name] = getattr(np.random, name)
                setattr(np.random, name, self._wrap(self._orig[name]))
        return self

    def _wrap(self, fn):
        def wrapped(*a, **k):
            out = fn(*a, **k)
            try:
                n = out.shape[0] if getattr(out, "ndim", 0) == 1 else 0
            except Exception:
                n = 0
            if n > 0 and self.plan:
                for frac, code in self.plan:
                    pos = min(n - 1, int(frac * n))
                    out[pos] = 0.0 if code == 0 else self.HI
                    self.fired += 1
                self.plan = []
            return out

        return wrapped

    def __exit__(self, *exc):
        for name, fn in self._orig.items():
            setattr(self._np.random, name, fn)
        return False
