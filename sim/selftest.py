"""./vcheck --selftest [prop ...] : determinism of the simulator itself.

For every property, N seeds are executed (a) twice in this process tree at W=16, (b) once more in
a new interpreter started with another PYTHONHASHSEED and W=4.  The per-run digests (ops, scheduler
decisions, canonical results) must be identical.  Exit 0 iff all agree, 2 otherwise (a harness
defect, never a VIOLATION).
"""
import json
import os
import subprocess
import sys

from . import batch, farm as farm_mod
from .core import DEFAULT_SEED, derive_seed


def main(argv):
    props = [a for a in argv if a in batch.PROPS] or sorted(batch.PROPS)
    n = int(os.environ.get("VERIF_SELFTEST_SEEDS", "64"))
    tier = os.environ.get("VERIF_TIER", "quick")
    seed = int(os.environ.get("VERIF_SEED", DEFAULT_SEED))
    bad = 0
    for prop in props:
        mod = batch.load(prop)
        farm = farm_mod.Farm(batch.make_handler(mod), int(os.environ.get("VERIF_WORKERS", "16")))
        try:
            errs = []
            if hasattr(mod, "prepare"):
                ctx = mod.prepare(farm, seed, tier, dict(mod.TIERS[tier], cold_check=False), errs)
                if ctx is not None:
                    farm.set_context(ctx)
            rep = batch.determinism_selftest(farm, mod, prop, tier, seed, errs, n=n, cross=True)
        finally:
            farm.close()
        ok = not errs
        print("selftest property=%s seeds=%d passes=2+1 mismatches=%d cross=%s digest=%s %s" % (
            prop, n, rep["mismatches"], rep.get("cross_interpreter"), rep["digest"], "OK" if ok else "FAILED"), flush=True)
        for e in errs[:3]:
            print("  " + json.dumps(e)[:600])
        bad += 0 if ok else 1
    return 0 if bad == 0 else 2
