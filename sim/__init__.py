"""Deterministic simulation with fault injection for andim/pyrepseq (see /verif/DESIGN.md)."""
