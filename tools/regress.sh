#!/bin/sh
# Re-run every archived seeded change and every sensitivity mutant against the current checks (no background `vp run` may be active:
# the seeded changes are applied to a scratch worktree, the mutants to scratch copies; /repo itself is never modified).
cd "$(dirname "$0")/.."
for d in seeded/*/; do
  id=$(basename "$d"); prop=$(/venv/bin/python -c "import json;print(json.load(open('$d/meta.json'))['property'])")
  tools/seeded.py "$id" "$prop" /nonexistent 2>&1 | grep -E "quick:" | sed "s/^/$id /"
done
tools/mutants.py --no-suite 2>&1 | awk '{print $1, $2, $4, $5}'
