#!/venv/bin/python
"""Sensitivity mutants (DESIGN.md Appendix C): realistic edits of pyrepseq that must keep the pinned
test-suite green and must make the named quick check exit 1 with a reproducing replay.

usage: tools/mutants.py [--only ID[,ID...]] [--keep] [--no-suite]
Applies each edit to a scratch copy under /var/tmp (never /repo), runs the unedited suite there,
runs `VERIF_REPO=<copy> ./vcheck <prop> quick`, removes the copy, prints one line per mutant and
writes tools/mutants_result.json.
"""
import json
import os
import shutil
import subprocess
import sys
import time

VERIF = os.path.dirname(os.path.dirname(os.path.abspath(__file__)))
NN, ST, DI, IO, PL = "pyrepseq/nn.py", "pyrepseq/stats.py", "pyrepseq/distance.py", "pyrepseq/io.py", "pyrepseq/plotting.py"
TL = "pyrepseq/metric/tcr_metric/tcr_levenshtein.py"
CALP = "    _cal_params = (seqs, max_edits, limit, custom_distance, max_cust_dist)\n"

M = [
    # ---- C03 -------------------------------------------------------------------------------
    ("M03a", "C03", NN,
     "        ans = []\n        threshold = max_custom_distance\n        if custom_distance in (None, 'hamming') or max_custom_distance == float('inf'):\n            threshold = self.max_edits\n",
     "        memo = self.__dict__.setdefault('_memo', {})\n        if tuple(seqs2) in memo:\n            return _make_output(list(memo[tuple(seqs2)]), output_type, self.seqs, seqs2)\n"
     "        ans = []\n        memo[tuple(seqs2)] = ans\n        threshold = max_custom_distance\n        if custom_distance in (None, 'hamming') or max_custom_distance == float('inf'):\n            threshold = self.max_edits\n",
     "memo cache in SymdelDB.lookup keyed by the queries only (ignores custom_distance; partial results stay cached when a lookup fails)"),
    ("M03b", "C03", NN,
     "    def __init__(self, seqs, max_edits):\n        self.seqs = seqs\n        self.max_edits = max_edits\n        self.variant_dict = {}\n",
     "    variant_dict = {}\n\n    def __init__(self, seqs, max_edits):\n        self.seqs = seqs\n        self.max_edits = max_edits\n",
     "SymdelDB.variant_dict promoted to a class attribute (shared by all instances)"),
    ("M03c", "C03", NN,
     "                for j in self.variant_dict[comb]:\n                    j_indices.add(j)\n",
     "                for j in self.variant_dict.pop(comb):\n                    j_indices.add(j)\n",
     "destructive read of the index in SymdelDB.lookup"),
    ("M03d", "C03", NN,
     "                           if pdist_mode and x_index == y_index:\n",
     "                           if x_index == y_index:\n",
     "F1 re-introduced: LookupDB.lookup skips equal positions unconditionally"),
    ("M03e", "C03", NN,
     "                ans.append((i, j, dist))\n\n        return _make_output(ans, output_type, self.seqs, seqs2)\n",
     "                ans.append((j, i, dist))\n\n        return _make_output(ans, output_type, self.seqs, seqs2)\n",
     "orientation swapped in SymdelDB.lookup"),
    ("M03f", "C03", NN,
     "    for edit in range(1, max_edits+1):\n        for indexes in combinations(range(_len), edit):\n",
     "    for edit in range(1, max(2, max_edits)):\n        for indexes in combinations(range(_len), edit):\n",
     "_comb_gen loses the k-deletion variants for k >= 2"),
    ("M03g", "C03", NN,
     "        self.seq_dict = {}\n        for index, seq in enumerate(seqs):\n            if seq not in self.seq_dict:\n                self.seq_dict[seq] = []\n            self.seq_dict[seq].append(index)\n",
     "        self.seq_dict = {}\n        for index, seq in enumerate(seqs):\n            if seq not in self.seq_dict:\n                self.seq_dict[seq] = []\n            if len(self.seq_dict[seq]) < 2:\n                self.seq_dict[seq].append(index)\n",
     "LookupDB keeps at most two positions per distinct reference sequence (third duplicate lost)"),
    # ---- C11 -------------------------------------------------------------------------------
    ("M11a", "C11", NN,
     CALP + "    _loop = enumerate(y_indices)\n\n    if n_cpu == 1:\n        result = map(cal, _loop)\n    else:\n        with Pool(n_cpu) as p:\n",
     "    _loop = enumerate(y_indices)\n\n    if n_cpu == 1:\n    " + CALP + "        result = map(cal, _loop)\n    else:\n        with Pool(n_cpu) as p:\n        " + CALP,
     "_cal_params assigned after the pool is created: workers inherit the previous call's parameters"),
    ("M11b", "C11", NN,
     "            result = p.map(cal, _loop, chunksize=max(1, int(len(seqs) / n_cpu)))\n",
     "            chunks = p.imap_unordered(cal, _loop)\n            result = [[(i, j, d) for (_, j, d) in r] for i, r in enumerate(chunks)]\n",
     "imap_unordered with the query index rebuilt from arrival order"),
    ("M11d", "C11", NN,
     "chunksize=max(1, int(len(seqs) / n_cpu))", "chunksize=int(len(seqs) / n_cpu)",
     "F2 re-introduced: chunksize 0 when n_cpu > len(seqs)"),
    ("M11e", "C11", NN,
     '    params = {"r": np.sqrt(2) * max_edits, "workers": n_cpu}\n',
     '    params = {"r": np.sqrt(2) * max_edits / compression, "workers": n_cpu}\n',
     "ball radius divided by compression"),
    ("M11f", "C11", NN,
     "    ans = sorted(filter(distance_filter, ans), key=lambda x: x[2])\n",
     "    ans = list(filter(distance_filter, ans))\n",
     "custom-distance path no longer sorts before applying max_returns"),
    ("M11g", "C11", NN,
     "            ans += [(positions[i], positions[j], dist) for i, j, dist in triplets]\n",
     "            ans += triplets\n",
     "F3 re-introduced: Hamming mode reports bucket-local positions"),
    ("M11h", "C11", NN,
     "    global _cal_params\n",
     "    global _cal_params\n    if n_cpu > 1 and limit is not None:\n        limit = max(1, limit // n_cpu)\n",
     "max_returns divided among the workers (limit applied per worker share)"),
    ("M11i", "C11", NN,
     "    matrix = [_histogram_encode(x, compression) for x in seqs]\n",
     "    matrix = [_histogram_encode(x, compression) for x in seqs]\n    if compression > 1:\n        params['r'] = np.sqrt(2) * max_edits - 1e-9\n",
     "ball radius shaved when compressing (boundary neighbours lost only with compression)"),
    # ---- C17 -------------------------------------------------------------------------------
    ("M17a", "C17", ST, "sample = np.random.choice(unpacked, size=n, replace=False)", "sample = np.random.choice(unpacked, size=n, replace=True)",
     "subsample with replacement"),
    ("M17b", "C17", ST, "sample = np.random.choice(unpacked, size=n, replace=False)", "sample = np.random.choice(len(counts), size=n)",
     "subsample draws categories instead of items"),
    ("M17c", "C17", ST, "    n = int(n)\n    unpacked", "    n = min(int(n), int(np.sum(counts)))\n    unpacked",
     "subsample silently clamps n to the total"),
    ("M17d", "C17", DI, "    return np.random.choice(seqs, maxseqs, replace=False)\n", "    return np.random.choice(seqs, maxseqs)\n",
     "downsample with replacement"),
    ("M17e", "C17", DI, "        return seqs.sample(n=maxseqs)\n", "        return seqs.sample(n=maxseqs).reset_index(drop=True)\n",
     "downsample resets a table's index"),
    ("M17f", "C17", ST, "(-1.0 / (alpha - 1.0)) + 0.5)", "(-1.0 / (alpha - 1.0)))",
     "powerlaw_sample without the +0.5 rounding term"),
    ("M17g", "C17", ST, "np.sum(np.log(c / (cmin - 0.5)))", "np.sum(np.log(c / (cmin + 0.5)))",
     "continuity correction with the wrong sign"),
    ("M17h", "C17", ST, "sample = np.random.choice(unpacked, size=n, replace=False)",
     "w = np.linspace(1.0, 2.0, len(unpacked)) if len(unpacked) else None\n    sample = np.random.choice(unpacked, size=n, replace=False, p=None if w is None else w / w.sum())",
     "subsample biased towards later items (conservation laws intact; only uniformity is lost)"),
    ("M17i", "C17", DI, "    return np.random.choice(seqs, maxseqs, replace=False)\n",
     "    return np.random.choice(seqs[:-1] if len(seqs) - 1 >= maxseqs else seqs, maxseqs, replace=False)\n",
     "control: downsample never keeps the last element - size and sub-multiset still hold, and the statement promises uniformity for subsample only, so this must NOT raise an alarm"),
    ("M17j", "C17", DI, "    if len(seqs) <= maxseqs:\n        return seqs\n", "    if len(seqs) < maxseqs:\n        return seqs\n",
     "downsample re-draws (permutes / converts) an input that has exactly maxseqs elements"),
    ("M17k", "C17", ST, "        optkwargs = dict(bounds=[1.5, 4.5], method=\"bounded\")\n        optkwargs.update(kwargs)\n",
     "        optkwargs = dict(bounds=[1.5, 4.5], method=\"bounded\")\n        optkwargs.update(kwargs)\n        optkwargs.setdefault('options', {'xatol': 0.05})\n",
     "'exact' fit stops at a coarse tolerance (not a maximiser)"),
    # ---- C20 -------------------------------------------------------------------------------
    ("M20a", "C20", PL, "        cbar_kws = dict(cbar_kws, ticks=bounds[:-1] + 0.5)\n", "        cbar_kws.update(dict(ticks=bounds[:-1] + 0.5))\n",
     "F4 re-introduced: colour-bar ticks written into the default / caller's dict"),
    ("M20b", "C20", TL, "        df = df.copy()\n        df[[\"CDR1A\", \"CDR2A\"]]", "        df[[\"CDR1A\", \"CDR2A\"]]",
     "_expand_v_gene_cdrs without the defensive copy"),
    ("M20c", "C20", IO, "    df_standardized = df.copy()\n", "    df_standardized = df\n", "standardize_dataframe works on the caller's table"),
    ("M20d", "C20", ST, "        df = array.fillna(\"\")\n", "        array.fillna(\"\", inplace=True)\n        df = array\n", "pc fills missing values in the caller's table"),
    ("M20e", "C20", DI, "    cluster = hc.fcluster(linkage, **cluster_kws)\n    return linkage, cluster\n",
     "    t = cluster_kws.pop(\"t\")\n    cluster = hc.fcluster(linkage, t, **cluster_kws)\n    return linkage, cluster\n",
     "hierarchical_clustering pops 't' from its (default or caller's) cluster_kws"),
    ("M20f", "C20", IO, "    merge_kwargs = dict(how=\"outer\")\n    merge_kwargs.update(kwargs)\n",
     "    merge_kwargs = _MERGE_DEFAULTS\n    merge_kwargs.update(kwargs)\n",
     "multimerge's keyword defaults hoisted to a module-level dict that every call updates", ("aminoacids = \"ACDEFGHIKLMNPQRSTVWY\"\n", "aminoacids = \"ACDEFGHIKLMNPQRSTVWY\"\n_MERGE_DEFAULTS = dict(how=\"outer\")\n")),
    ("M20g", "C20", NN, CALP, "    if \"_cal_params\" not in globals():\n    " + CALP, "_cal_params written only when undefined (first kdtree call wins)"),
    ("M20h", "C20", ST, "sample = np.random.choice(unpacked, size=n, replace=False)", "sample = np.random.default_rng().choice(unpacked, size=n, replace=False)",
     "subsample draws from a fresh unseeded generator (NumPy seed ignored)"),
    ("M20i", "C20", DI, "    return np.random.choice(seqs, maxseqs, replace=False)\n",
     "    if isinstance(seqs, list):\n        np.random.shuffle(seqs)\n        return np.array(seqs[:maxseqs])\n    return np.random.choice(seqs, maxseqs, replace=False)\n",
     "downsample shuffles a list input in place"),
    ("M20o", "C20", NN, "    tcrdist_kwargs_this.update(tcrdist_kwargs)\n",
     "    for _k, _v in tcrdist_kwargs_this.items():\n        tcrdist_kwargs.setdefault(_k, _v)\n    tcrdist_kwargs_this = tcrdist_kwargs\n",
     "nearest_neighbor_tcrdist completes the caller's tcrdist_kwargs (and its own default) in place, even when the call later raises"),
    ("M20p", "C20", PL, "    lut = dict(zip(label, sns.hls_palette(len(label), **palette_kws)))\n    return [lut[n] if n in lut else [0, 0, 0] for n in labels]\n",
     "    palette_kws.setdefault(\"h\", 0.01)\n    palette_kws[\"h\"] += 0.1\n    lut = dict(zip(label, sns.hls_palette(len(label), **palette_kws)))\n    return [lut[n] if n in lut else [0, 0, 0] for n in labels]\n",
     "labels_to_colors_hls rotates the hue stored in its palette_kws default on every call"),
    ("M20q", "C20", DI, "    strings = list(strings)\n    m = len(strings)\n    dm = np.empty((m * (m - 1)) // 2, dtype=dtype)\n",
     "    strings = list(strings)\n    m = len(strings)\n    global _pdist_buf\n    if '_pdist_buf' not in globals() or _pdist_buf.shape != ((m * (m - 1)) // 2,) or _pdist_buf.dtype != np.dtype(dtype):\n        _pdist_buf = np.empty((m * (m - 1)) // 2, dtype=dtype)\n    dm = _pdist_buf\n",
     "pdist reuses a module-level output buffer: an earlier result array is overwritten by a later call of the same size"),
    ("M20r", "C20", ST, "    n = ensure_numpy(n)\n    N = np.sum(n)\n    return np.sum(n * (n - 1)) / (N * (N - 1))\n",
     "    n = ensure_numpy(n)\n    N = np.sum(n)\n    n -= 1\n    return np.sum((n + 1) * n) / (N * (N - 1))\n",
     "pc_n decrements the caller's count array in place (ndarray input only)"),
    ("M20s", "C20", DI, "    back = pd.read_csv(path, index_col=0)\n    if not return_bins:\n",
     "    global _BACKGROUND\n    if '_BACKGROUND' not in globals():\n        _BACKGROUND = pd.read_csv(path, index_col=0)\n    back = _BACKGROUND\n    if not return_bins:\n",
     "load_pcDelta_background caches the packaged table at module level and hands the same object to every caller"),
    ("M20u", "C20", DI,
     "    strings = list(strings)\n    m = len(strings)\n    dm = np.empty((m * (m - 1)) // 2, dtype=dtype)\n    k = 0\n    for i in range(0, m - 1):\n        for j in range(i + 1, m):\n            dm[k] = metric(strings[i], strings[j], **kwargs)\n            k += 1\n    return dm\n",
     "    strings = list(strings)\n    m = len(strings)\n    _cache = os.path.join(os.path.expanduser('~'), '.cache', 'pyrepseq', 'pdist-%d-%d-%s.npy' % (m, sum(map(len, strings)), np.dtype(dtype).name))\n"
     "    if metric is levenshtein_distance and not kwargs and os.path.exists(_cache):\n        return np.load(_cache)\n"
     "    dm = np.empty((m * (m - 1)) // 2, dtype=dtype)\n    k = 0\n    for i in range(0, m - 1):\n        for j in range(i + 1, m):\n            dm[k] = metric(strings[i], strings[j], **kwargs)\n            k += 1\n"
     "    if metric is levenshtein_distance and not kwargs and m > 2:\n        os.makedirs(os.path.dirname(_cache), exist_ok=True)\n        np.save(_cache, dm)\n    return dm\n",
     "pdist keeps a result cache on disk (~/.cache/pyrepseq) keyed by the number and total length of the strings only: state outside the interpreter"),
    ("M20v", "C20", DI,
     "    distances = metric.calc_pdist_vector(seqs)\n    linkage = hc.linkage(distances, **linkage_kws)\n",
     "    distances = metric.calc_pdist_vector(seqs)\n    import tempfile\n    _f = os.path.join(tempfile.gettempdir(), 'pyrepseq-linkage-%d.npy' % len(distances))\n"
     "    if os.path.exists(_f):\n        linkage = np.load(_f)\n    else:\n        linkage = hc.linkage(distances, **linkage_kws)\n        np.save(_f, linkage)\n    cluster = hc.fcluster(linkage, **cluster_kws)\n    return linkage, cluster\n",
     "hierarchical_clustering keeps the linkage in a file of the temp directory keyed by the number of distances only"),
    ("M20w", "C20", DI,
     "    strings = list(strings)\n    m = len(strings)\n    dm = np.empty((m * (m - 1)) // 2, dtype=dtype)\n    k = 0\n    for i in range(0, m - 1):\n        for j in range(i + 1, m):\n            dm[k] = metric(strings[i], strings[j], **kwargs)\n            k += 1\n    return dm\n",
     "    strings = list(strings)\n    m = len(strings)\n    _memo = globals().setdefault('_PDIST_MEMO', {})\n    _key = (m, strings[0] if m else None, strings[-1] if m else None, np.dtype(dtype).name, metric, tuple(sorted(kwargs)))\n"
     "    if _key in _memo:\n        return _memo[_key].copy()\n"
     "    dm = np.empty((m * (m - 1)) // 2, dtype=dtype)\n    k = 0\n    for i in range(0, m - 1):\n        for j in range(i + 1, m):\n            dm[k] = metric(strings[i], strings[j], **kwargs)\n            k += 1\n"
     "    _memo[_key] = dm.copy()\n    return dm\n",
     "pdist memoises by (number of strings, first string, last string, dtype, metric): two inputs that agree in these and differ in between collide"),
    ("M20y", "C20", DI,
     "    if metric is None:\n        metric = levenshtein_distance\n    strings = list(strings)\n    m = len(strings)\n    dm = np.empty((m * (m - 1)) // 2, dtype=dtype)\n",
     "    if metric is None:\n        metric = levenshtein_distance\n    np.random.seed(0)\n    strings = list(strings)\n    m = len(strings)\n    dm = np.empty((m * (m - 1)) // 2, dtype=dtype)\n",
     "pdist (deterministic) reseeds NumPy's global generator (left-over line): seed; pdist; randomised call no longer gives the seed's result"),
    ("M20z", "C20", ST,
     "    n = ensure_numpy(n)\n    N = np.sum(n)\n    return np.sum(n * (n - 1)) / (N * (N - 1))\n",
     "    n = ensure_numpy(n)\n    N = np.sum(n)\n    if N > 10**6:\n        n = n[np.random.permutation(len(n))]\n    else:\n        np.random.rand()\n    return np.sum(n * (n - 1)) / (N * (N - 1))\n",
     "pc_n (deterministic) draws from NumPy's global generator: seed; pc_n; randomised call no longer gives the seed's result"),
    ("M20t", "C20", NN, "        return _make_output(ans, output_type, self.seqs, seqs2)\n\n\ndef _hamming_replacement",
     "        self._last = ans\n        return _make_output(ans, output_type, self.seqs, seqs2)\n\n\ndef _hamming_replacement",
     "benign control: SymdelDB.lookup keeps a reference to its last answer on the object (caller-visible object state changes, later results do not)"),
]


def _mk(d):
    os.makedirs(d, exist_ok=True)
    return d


def run(cmd, **kw):
    return subprocess.run(cmd, capture_output=True, text=True, **kw)


def main(argv):
    only = None
    keep = "--keep" in argv
    suite = "--no-suite" not in argv
    if "--only" in argv:
        only = set(argv[argv.index("--only") + 1].split(","))
    results = []
    for m in M:
        mid, prop, path, old, new, what = m[:6]
        extra = m[6] if len(m) > 6 else None
        if only and mid not in only:
            continue
        scratch = "/var/tmp/pyrepseq_mut_%s" % mid
        shutil.rmtree(scratch, ignore_errors=True)
        run(["rsync", "-a", "--exclude", ".git", "--exclude", "__pycache__", "/repo/", scratch + "/"])
        f = os.path.join(scratch, path)
        src = open(f).read()
        rec = {"id": mid, "property": prop, "file": path, "what": what}
        if src.count(old) != 1:
            rec["status"] = "edit-does-not-apply (%d matches)" % src.count(old)
            results.append(rec)
            print(mid, rec["status"], flush=True)
            shutil.rmtree(scratch, ignore_errors=True)
            continue
        src = src.replace(old, new)
        if extra:
            assert src.count(extra[0]) == 1
            src = src.replace(extra[0], extra[1])
        open(f, "w").write(src)
        if suite:
            p = run(["/venv/bin/python", "-m", "pytest", "-q", "-p", "no:cacheprovider", "--timeout=900",
                     "--continue-on-collection-errors"], cwd=scratch,
                    env=dict(os.environ, MPLBACKEND="Agg", HOME=os.path.join(scratch, ".home"), TMPDIR=_mk(os.path.join(scratch, ".tmp"))))
            tail = p.stdout.strip().splitlines()[-1] if p.stdout.strip() else ""
            rec["suite"] = tail
            rec["suite_green"] = "71 passed" in tail and "4 failed" in tail
        t0 = time.time()
        env = dict(os.environ, VERIF_REPO=scratch)
        p = run([os.path.join(VERIF, "vcheck"), prop, "quick"], env=env, cwd=VERIF)
        rec["check_exit"] = p.returncode
        rec["check_wall_s"] = round(time.time() - t0, 1)
        lines = [l for l in p.stdout.splitlines() if l.startswith(("VIOLATION", "  oracle=", "KNOWN", "HARNESS"))]
        rec["check_lines"] = lines[:8]
        rec["detected"] = p.returncode == 1 and any(l.startswith("VIOLATION") for l in lines)
        # evidence was rewritten by the mutant run: restore the committed one
        run(["git", "checkout", "--", "evidence/%s.json" % prop], cwd=VERIF)
        if not keep:
            shutil.rmtree(scratch, ignore_errors=True)
        results.append(rec)
        print(mid, prop, "suite_green=%s" % rec.get("suite_green"), "exit=%d" % rec["check_exit"],
              "DETECTED" if rec["detected"] else "MISSED", "%.0fs" % rec["check_wall_s"],
              "|", (lines[1].strip() if len(lines) > 1 else "")[:150], flush=True)
    out = os.path.join(VERIF, "tools", "mutants_result.json")
    prev = []
    if only and os.path.exists(out):
        prev = [r for r in json.load(open(out)) if r["id"] not in set(x["id"] for x in results)]
    json.dump(sorted(prev + results, key=lambda r: r["id"]), open(out, "w"), indent=1)
    return 0


if __name__ == "__main__":
    sys.exit(main(sys.argv[1:]))
