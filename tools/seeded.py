#!/venv/bin/python
"""Confirm and archive an independently written breaking change, then run the checks against it.

usage: tools/seeded.py <id> <property> <agent-worktree> [--via-repo] [--props C03,C11,...] [--tier quick]

1. saves `git diff` of the agent's worktree as seeded/<id>/patch.diff and its demo.py;
2. confirms in a FRESH scratch worktree of /repo (under /var/tmp, removed afterwards): the patch applies, the
   unedited suite still gives 71 passed / 4 failed / 1 error, demo.py exits 0 without the patch and non-zero with it;
3. runs the quick check(s) against the patched tree — by default with VERIF_REPO=<scratch worktree>; with
   --via-repo by `git -C /repo apply`, run, `git -C /repo checkout -- .` (only when no background run uses /repo);
4. writes seeded/<id>/meta.json (fields 'needs' and 'description' are filled in by hand afterwards).
"""
import json
import os
import shutil
import subprocess
import sys
import time

VERIF = os.path.dirname(os.path.dirname(os.path.abspath(__file__)))
SUITE = ["/venv/bin/python", "-m", "pytest", "-q", "-p", "no:cacheprovider", "--timeout=900", "--continue-on-collection-errors"]


def sh(cmd, **kw):
    return subprocess.run(cmd, capture_output=True, text=True, **kw)


def main(argv):
    sid, prop, wt = argv[0], argv[1], argv[2]
    via_repo = "--via-repo" in argv
    props = [prop]
    if "--props" in argv:
        props = argv[argv.index("--props") + 1].split(",")
    tier = argv[argv.index("--tier") + 1] if "--tier" in argv else "quick"
    d = os.path.join(VERIF, "seeded", sid)
    os.makedirs(d, exist_ok=True)
    patch = os.path.join(d, "patch.diff")
    if os.path.isdir(wt):
        diff = sh(["git", "-C", wt, "diff"]).stdout
        if diff.strip():
            open(patch, "w").write(diff)
        if os.path.exists(os.path.join(wt, "demo.py")):
            import re

            src = open(os.path.join(wt, "demo.py")).read()
            # some demos assert that pyrepseq was imported from the agent's own worktree: make the archived copy
            # independent of where it is run (it is always run with the tree under test as cwd)
            src2 = re.sub(r"""(["'])%s/?\1""" % re.escape(wt.rstrip("/")), '__import__("os").getcwd()', src)
            if src2 != src:
                src2 = "# archived copy: the literal worktree path of the agent was replaced by os.getcwd()\n" + src2
            open(os.path.join(d, "demo.py"), "w").write(src2)
    meta_path = os.path.join(d, "meta.json")
    meta = json.load(open(meta_path)) if os.path.exists(meta_path) else {}
    meta.update({"id": sid, "property": prop, "files": sorted(set(l[6:] for l in open(patch) if l.startswith("+++ b/")))})

    scratch = "/var/tmp/seeded_%s" % sid
    sh(["git", "-C", "/repo", "worktree", "remove", "--force", scratch])
    shutil.rmtree(scratch, ignore_errors=True)
    r = sh(["git", "-C", "/repo", "worktree", "add", "--detach", scratch, "HEAD"])
    assert r.returncode == 0, r.stderr
    try:
        env = dict(os.environ, MPLBACKEND="Agg")
        shutil.copy(os.path.join(d, "demo.py"), os.path.join(scratch, "demo.py"))
        r0 = sh(["/venv/bin/python", "demo.py"], cwd=scratch, env=env)
        a = sh(["git", "-C", scratch, "apply", patch])
        assert a.returncode == 0, "patch does not apply: " + a.stderr
        r1 = sh(["/venv/bin/python", "demo.py"], cwd=scratch, env=env)
        st = sh(SUITE, cwd=scratch, env=env)
        tail = st.stdout.strip().splitlines()[-1] if st.stdout.strip() else ""
        meta["confirmed"] = {
            "demo_exit_without_patch": r0.returncode, "demo_exit_with_patch": r1.returncode,
            "demo_message_with_patch": (r1.stderr.strip().splitlines() or [""])[-1][:300],
            "suite_with_patch": tail, "suite_unchanged": ("71 passed" in tail and "4 failed" in tail),
            "ran": ["git worktree add --detach %s HEAD" % scratch, "python demo.py (unpatched, then patched)",
                    " ".join(SUITE) + " (patched)"],
        }
        print("confirm %s: demo %d -> %d ; suite: %s" % (sid, r0.returncode, r1.returncode, tail), flush=True)
        os.remove(os.path.join(scratch, "demo.py"))
        checks = meta.setdefault("checks", {})
        for p in props:
            t0 = time.time()
            if via_repo:
                ap = sh(["git", "-C", "/repo", "apply", patch])
                assert ap.returncode == 0, ap.stderr
                try:
                    c = sh([os.path.join(VERIF, "vcheck"), p, tier], cwd=VERIF)
                finally:
                    sh(["git", "-C", "/repo", "checkout", "--", "."])
                how = "git -C /repo apply seeded/%s/patch.diff; ./vcheck %s %s; git -C /repo checkout -- ." % (sid, p, tier)
            else:
                c = sh([os.path.join(VERIF, "vcheck"), p, tier], cwd=VERIF, env=dict(os.environ, VERIF_REPO=scratch))
                how = "VERIF_REPO=<scratch worktree with the patch> ./vcheck %s %s" % (p, tier)
            lines = [l for l in c.stdout.splitlines() if l.startswith(("VIOLATION", "  oracle=", "  ", "KNOWN", "HARNESS", "done"))]
            sh(["git", "checkout", "--", "evidence/%s.json" % p], cwd=VERIF)
            det = c.returncode == 1 and any(l.startswith("VIOLATION") for l in lines)
            checks["%s %s" % (p, tier)] = {"how": how, "exit": c.returncode, "detected": det, "wall_s": round(time.time() - t0, 1),
                                           "output": lines[:7]}
            print("  %s %s: exit=%d %s" % (p, tier, c.returncode, "DETECTED" if det else "MISSED"), flush=True)
            for l in lines[:4]:
                print("     " + l[:230], flush=True)
    finally:
        sh(["git", "-C", "/repo", "worktree", "remove", "--force", scratch])
        shutil.rmtree(scratch, ignore_errors=True)
    json.dump(meta, open(meta_path, "w"), indent=1)
    return 0


if __name__ == "__main__":
    sys.exit(main(sys.argv[1:]))
