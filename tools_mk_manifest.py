import json
NA = {
"C01":"symdel/nearest_neighbor read no clock, file or RNG, ignore n_cpu and keep no state between calls: the triplet set is a pure function of (seqs, max_edits); there is no schedule, fault or history to sample (DESIGN.md section 4).",
"C02":"pc, pc_n, pc_joint are arithmetic on np.unique counts of the argument: pure function of the input; no schedule/fault/history dimension.",
"C04":"engine equivalence at fixed arguments is an all-inputs statement about three pure functions (hash_based ignores n_cpu; kdtree's only schedule dimension is C11's); input search against a reference is property-based testing, not simulation.",
"C05":"histogram/normalisation/pseudocount/bin-edge content is a pure function of the arguments; its one random clause (maxseqs -> downsample) is exercised under C17 and its file is a read-only packaged table.",
"C06":"unbiasedness is a polynomial identity over all count vectors; seeded simulation could only estimate statistically what the property asks exactly, and exact enumeration is a different technique family.",
"C07":"Hamming-mode exactness is a pure function of (seqs, max_edits, engine); two executions of the same call cannot differ.",
"C08":"metric values and condensed layout are pure; the only concurrency is rapidfuzz's native thread pool writing disjoint cells, which no Python-level simulator can schedule and no clause depends on.",
"C09":"additive weighted-sum structure of the TCR metrics is pure in the two tables and the weights (the 'tables left unmodified' clause is exercised incidentally by C20's arg_mutated oracle).",
"C10":"output-format/container equivalence and argument validation are per-call input/output relations; pure.",
"C12":"one-edit neighbourhood generators and the set utilities on them are pure generators/functions of their arguments.",
"C13":"grouped/conditional/entropy statistics are algebraic compositions of pure functions.",
"C14":"pair inclusion depends only on two distances by its own wording; pure, plus a static fact about two CSV files; pwseqdist is absent and a stand-in would be a dependency substitute, not a fault or schedule.",
"C15":"connected components and SciPy clustering are pure in the edge list/distances; the clause about community variants is a graph invariant over inputs, not over schedules.",
"C16":"closed-form estimators of a count vector / two collections; pure.",
"C18":"despite the module name pyrepseq.io performs no I/O: predicates and per-cell Series.map are pure (the 'never alters the caller's table' clause is exercised incidentally by C20).",
"C19":"each plot/summary is a deterministic map from inputs to artist data; the only randomness permutes colours and the stated colour invariants are permutation-invariant.",
}
CHECKS = {
"C03": dict(text="Seeded exploration of lookup histories (builds, lookups, repeats, one-shot searches, faulted lookups: callback raise / asynchronous interrupt, drops) over up to three live SymdelDB/LookupDB objects; every non-faulted answer compared as a multiset with a brute-force Wagner-Fischer/Hamming model; violations minimised to a replayable op list.",
            note="Trusted: the pure-Python reference model in sim/oracles.py; amino-acid alphabet; sampling not proof. Caller mutation of the reference list after build and thread-safety are not demanded.",
            tech="deterministic simulation: seeded call histories + injected callback/interrupt faults vs brute-force reference model", ref="3.1"),
"C11": dict(text="Seeded exploration of kdtree call histories under a simulated process pool (real forked workers, seeded take/deliver schedule: reordering, slow and idle workers) over n_cpu 1..16, compression 1..25, max_returns, three modes; differential oracle against the n_cpu=1/compression=1 call and a brute-force true-neighbour model for max_returns; minimised replayable traces.",
            note="Trusted: SimPool dispatcher fidelity (cross-checked against the real multiprocessing.Pool on sampled configurations each run), fork start method, pure-Python distance model. Sampling, not proof.",
            tech="deterministic simulation: SimPool seeded scheduler over real forked workers + configuration swarm", ref="3.2"),
"C17": dict(text="Seeded exploration of the NumPy global random stream (seeded draws, boundary uniforms 0 and 1-2^-53 injected at the seam) through pipelines of subsample/downsample/powerlaw_sample/powerlaw_mle_alpha with conservation/bound invariants on every draw, plus uniformity tests against the exact hypergeometric law with a fixed total false-alarm bound < 1e-8 (Hoeffding on small fixed configurations, Fisher-combined exact tails on small and deep-repertoire configurations).",
            note="Trusted: NumPy legacy global generator as the seam; Hoeffding bound and scipy.stats.hypergeom log-tails for the uniformity statistics; own zeta-sum likelihood for the 'exact' fit. The powerlaw_mle_alpha closed-form clauses are deterministic and only evaluated along the way.",
            tech="deterministic simulation of the RNG seam: seeded/boundary draws + invariants + exact-distribution uniformity bound", ref="3.3"),
"C20": dict(text="Seeded exploration of public-API call histories over a shared heap of caller-owned objects with injected faults (natural raises, callback raise, pool fork failure, packaged-file read error, asynchronous interrupt at an arbitrary pyrepseq line, pool schedules); the simulated caller also edits its own objects between calls, seeds the global random generators ahead of deterministic calls and keeps other figures open; templates with fixed arguments plus random-argument templates in sibling clusters drawn per batch seed; every job runs in a private working / home / temp directory; after every call argument snapshots are compared and the canonical outcome is compared with the same call executed alone in a pristine process.",
            note="Trusted: canonicalisation of results (floats rel. 1e-9, figures reduced to artist-data fingerprints); fork-from-pristine-image equals fresh interpreter; igraph-backed community variants asserted only with both generators seeded; tcrdist/pwseqdist/mafft absent (those calls only appear as calls that raise).",
            tech="deterministic simulation: seeded call histories + fault injection vs pristine-process oracle and argument snapshots", ref="3.4"),
}
import sys
claimed = sys.argv[1:]
m = {
 "version": 1,
 "setup_cmd": "/venv/bin/python -c \"import sys; sys.path.insert(0, '/repo'); import pyrepseq, numpy, pandas, scipy, rapidfuzz; print('setup ok')\"",
 "hooks": {
  "guard": "PYREPSEQ_VERIF",
  "enable": "no source hooks are needed: every seam is taken from outside (multiprocessing.pool.Pool rebinding, threading.Event.wait / time.sleep while a pool is alive, np.random seeding/wrapping, sys.settrace, callback arguments, pandas.read_csv wrapping, a private cwd/HOME/TMPDIR per job with an audit hook for writes outside it); vcheck exports PYREPSEQ_VERIF=1 for its own processes only, /repo never reads it",
  "baseline_off_cmd": "cd /repo && /venv/bin/python -m pytest -ra -q -p no:cacheprovider --timeout=900 --continue-on-collection-errors",
  "source_commits": [],
  "add_only": True
 },
 "engines": [{"name": "sim", "path": "/verif/sim", "serves_properties": claimed,
   "kind_free_text": "hand-written deterministic simulator: seeded op-list generator, SimPool (real forked workers + seeded dispatcher), fault carriers (callback raise, line-tracer interrupt, fork failure, read_csv error, RNG boundary draws), pristine-process farm, delta-debugging minimiser, JSON replay files"}],
 "checks": [],
 "notes": "Technique family: deterministic simulation with fault injection. Exit codes: 0 held, 1 VIOLATION (replay file written and re-verified in a new interpreter), 2 harness error. Genuine defects found and repaired are listed in known_findings.json (status fixed).",
 "not_applicable": [],
}
for pid in sorted(CHECKS):
    c = CHECKS[pid]
    if pid in claimed:
        m["checks"].append({
          "property_id": pid, "quick_cmd": "./vcheck %s quick" % pid, "thorough_cmd": "./vcheck %s thorough" % pid,
          "evidence_file": "/verif/evidence/%s.json" % pid, "replay_cmd_template": "./vcheck --replay {path}",
          "engine": "sim",
          "level_claimed": {"category": "exploration", "text": c["text"], "design_ref": "DESIGN.md section " + c["ref"]},
          "level_note": c["note"], "technique": c["tech"]})
    else:
        m["not_applicable"].append({"property_id": pid, "reason": "simulation target per DESIGN.md section %s; its check is not yet built in this commit, so it is not claimed here" % c["ref"]})
for pid in sorted(NA):
    m["not_applicable"].append({"property_id": pid, "reason": NA[pid]})
json.dump(m, open('/verif/MANIFEST.json','w'), indent=1)
